#!/bin/sh
# Offline setup: build the libc interposer used by C06 (if its source exists)
# and verify the Python environment.  Everything else is pure Python run from
# /verif against /repo's working tree.
set -e
cd "$(dirname "$0")"
mkdir -p build evidence replays
if [ -f native/iosim.c ]; then
  gcc -O2 -fPIC -shared -o build/libiosim.so native/iosim.c -ldl -lpthread
fi
/venv/bin/python -c "import numpy, scipy, sklearn, h5py; print('python deps ok')"

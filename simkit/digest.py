"""Content digests: numpy values, sampler results, HDF5 logical content."""

import hashlib
import numpy as np


def _h():
    return hashlib.sha256()


def feed(h, obj):
    """Feed a (nested) python/numpy value into hash `h`, type-tagged."""
    if obj is None:
        h.update(b'N')
    elif isinstance(obj, (bool, np.bool_)):
        h.update(b'B1' if obj else b'B0')
    elif isinstance(obj, (int, np.integer)):
        h.update(b'I' + str(int(obj)).encode())
    elif isinstance(obj, (float, np.floating)):
        h.update(b'F' + np.float64(obj).tobytes())
    elif isinstance(obj, (bytes, np.bytes_)):
        h.update(b'Y' + bytes(obj))
    elif isinstance(obj, str):
        h.update(b'S' + obj.encode())
    elif isinstance(obj, np.ndarray):
        if obj.dtype == object:
            h.update(b'O' + str(obj.shape).encode())
            for x in obj.ravel():
                feed(h, x)
        else:
            h.update(b'A' + str(obj.dtype).encode() + str(obj.shape).encode())
            h.update(np.ascontiguousarray(obj).tobytes())
    elif isinstance(obj, dict):
        h.update(b'D')
        for k in sorted(obj, key=str):
            feed(h, str(k))
            feed(h, obj[k])
    elif isinstance(obj, (list, tuple)):
        h.update(b'L' + str(len(obj)).encode())
        for x in obj:
            feed(h, x)
    else:
        h.update(b'R' + repr(obj).encode())


def digest(obj):
    h = _h()
    feed(h, obj)
    return h.hexdigest()[:24]


def rng_state(rng):
    st = rng.bit_generator.state
    return (int(st['state']['state']), int(st['state']['inc']),
            int(st['has_uint32']), int(st['uinteger']))


def canonical_points(points):
    """Posterior points as one float array whatever the container (array,
    dict of arrays, array of dicts): the container depends on the prior
    function and on scalar/vectorised mode, the numbers must not."""
    if isinstance(points, dict):
        keys = sorted(points)
        return [keys, np.stack([np.asarray(points[k], dtype=np.float64)
                                for k in keys], axis=-1)]
    points = np.asarray(points)
    if points.dtype == object and points.size and isinstance(
            points.ravel()[0], dict):
        keys = sorted(points.ravel()[0])
        return [keys, np.array([[np.float64(d[k]) for k in keys]
                                for d in points.ravel()], dtype=np.float64)]
    return points


def result_digest(sampler, with_rng=True):
    """Digest of everything C05/C11 call 'the result'."""
    out = {}
    out['n_like'] = int(sampler.n_like)
    lz = sampler.log_z
    out['log_z'] = None if lz is None else np.float64(lz)
    out['n_eff'] = np.float64(sampler.n_eff)
    try:
        if sampler.blobs is not None:
            post = sampler.posterior(return_blobs=True)
        else:
            post = sampler.posterior()
        post = list(post)
        post[0] = canonical_points(post[0])
        out['posterior'] = post
    except Exception as e:       # nothing stored yet, etc.
        out['posterior'] = 'EXC:' + type(e).__name__
    if with_rng:
        out['rng'] = rng_state(sampler.rng)
    parts = {k: digest(v) for k, v in out.items()}
    return digest(parts), parts


def h5_logical(node, out=None, prefix=''):
    """Logical content of an h5py file/group as a flat dict name -> digest."""
    import h5py
    if out is None:
        out = {}
    for k in sorted(node.attrs.keys()):
        v = node.attrs[k]
        out[prefix + '@' + k] = digest(np.asarray(v) if not isinstance(
            v, (str, bytes)) else v)
    for k in sorted(node.keys()):
        item = node[k]
        if isinstance(item, h5py.Dataset):
            arr = item[()]
            out[prefix + '/' + k] = digest(
                [np.asarray(arr), str(item.dtype), tuple(item.shape)])
            for a in sorted(item.attrs.keys()):
                out[prefix + '/' + k + '@' + a] = digest(
                    np.asarray(item.attrs[a]))
        else:
            out[prefix + '/' + k + '/'] = 'G'
            h5_logical(item, out, prefix + '/' + k)
    return out


def h5_file_logical(path_or_bytes):
    """(digest, flat dict) of an HDF5 file given by path or bytes.
    Raises whatever h5py raises on an unreadable image."""
    import h5py
    import io
    if isinstance(path_or_bytes, (bytes, bytearray, memoryview)):
        f = h5py.File(io.BytesIO(bytes(path_or_bytes)), 'r')
    else:
        f = h5py.File(path_or_bytes, 'r')
    try:
        flat = h5_logical(f)
    finally:
        f.close()
    return digest(flat), flat

"""Simulated worker pools.

The pool contract nautilus relies on is: `map(func, iterable)` returns the
results in input order; each task runs in another process, i.e. on pickled
copies of the function and of its argument, and the result comes back pickled.
The simulated pool keeps exactly that and lets the run's PRNG decide what a
real pool leaves to the OS: in which order tasks execute, which worker gets
which task and in which order they complete.
"""

import concurrent.futures
import pickle


class _Star:
    def __init__(self, func, kwds=None):
        self.func, self.kwds = func, kwds or {}

    def __call__(self, args):
        return self.func(*args, **self.kwds)


class _Async:
    def __init__(self, value):
        self.value = value

    def get(self, timeout=None):
        return self.value

    def result(self, timeout=None):
        return self.value

    def wait(self, timeout=None):
        pass

    def ready(self):
        return True

    def successful(self):
        return True

    def done(self):
        return True


class _SimPoolBase:
    flavour = 'base'

    def __init__(self, size, rng, stats=None):
        self._n = int(size)
        self._rng = rng
        self.stats = stats if stats is not None else {}
        self.log = []

    def _run(self, func, iterable):
        items = list(iterable)
        n = len(items)
        order = list(range(n))
        self._rng.shuffle(order)
        workers = [self._rng.randrange(self._n) for _ in range(n)]
        results = [None] * n
        fblob = pickle.dumps(func)
        for i in order:
            f = pickle.loads(fblob)
            arg = pickle.loads(pickle.dumps(items[i]))
            results[i] = pickle.loads(pickle.dumps(f(arg)))
        self.stats['pool_maps'] = self.stats.get('pool_maps', 0) + 1
        self.stats['pool_tasks'] = self.stats.get('pool_tasks', 0) + n
        if order != sorted(order):
            self.stats['pool_reordered_maps'] = self.stats.get(
                'pool_reordered_maps', 0) + 1
        self.log.append((n, tuple(order), tuple(workers)))
        self.last_completion_order = order
        return results

    def _unordered(self, func, iterable):
        """Results in the (seeded) order in which the tasks completed."""
        results = self._run(func, iterable)
        return [results[i] for i in self.last_completion_order]


class MPPool(_SimPoolBase):
    """multiprocessing.Pool-like: size in `_processes`."""
    flavour = 'mp'

    def __init__(self, size, rng, stats=None):
        _SimPoolBase.__init__(self, size, rng, stats)
        self._processes = self._n

    def map(self, func, iterable, chunksize=None):
        return self._run(func, iterable)

    # the rest of the multiprocessing.Pool surface, so that code which
    # consumes results in completion order is executable (and caught)
    def imap(self, func, iterable, chunksize=1):
        return iter(self._run(func, iterable))

    def imap_unordered(self, func, iterable, chunksize=1):
        return iter(self._unordered(func, iterable))

    def starmap(self, func, iterable, chunksize=None):
        return self._run(_Star(func), iterable)

    def map_async(self, func, iterable, chunksize=None, callback=None):
        return _Async(self._run(func, iterable))

    def apply_async(self, func, args=(), kwds=None):
        return _Async(self._run(_Star(func, kwds), [args])[0])

    def close(self):
        pass

    def join(self):
        pass

    def terminate(self):
        pass


class SimFuture(concurrent.futures.Future):
    """A finished future whose place in `as_completed` (which iterates over a
    set of finished futures) is decided by the run's PRNG through its hash:
    code that consumes results in completion order sees a seeded, repeatable
    completion order instead of the OS's."""

    def __init__(self, rank):
        concurrent.futures.Future.__init__(self)
        self._rank = rank

    def __hash__(self):
        return self._rank

    def __eq__(self, other):
        return self is other


class ExecutorPool(_SimPoolBase, concurrent.futures.Executor):
    """concurrent.futures-like: size in `_max_workers`, map returns an
    iterator, submit returns futures."""
    flavour = 'executor'

    def __init__(self, size, rng, stats=None):
        _SimPoolBase.__init__(self, size, rng, stats)
        self._max_workers = self._n

    def map(self, func, *iterables, timeout=None, chunksize=1):
        if len(iterables) == 1:
            return iter(self._run(func, iterables[0]))
        return iter(self._run(_Star(func), zip(*iterables)))

    def submit(self, func, *args, **kwargs):
        f = SimFuture(self._rng.getrandbits(20))
        try:
            f.set_result(self._run(_Star(func, kwargs), [args])[0])
        except Exception as e:
            f.set_exception(e)
        return f

    def shutdown(self, wait=True, cancel_futures=False):
        pass


class MPIPool(_SimPoolBase):
    """schwimmbad/MPI-like: size in `size`."""
    flavour = 'mpi'

    def __init__(self, size, rng, stats=None):
        _SimPoolBase.__init__(self, size, rng, stats)
        self.size = self._n

    def map(self, func, iterable):
        return self._run(func, iterable)


def make_pool(spec, rng, stats=None):
    """spec: None or dict(flavour=..., size=...)."""
    if spec is None:
        return None
    fl = spec['flavour']
    if fl == 'mp':
        return MPPool(spec['size'], rng, stats)
    if fl == 'executor':
        return ExecutorPool(spec['size'], rng, stats)
    if fl == 'mpi':
        return MPIPool(spec['size'], rng, stats)
    if fl == 'dask':
        from .distributed.client import Client
        return Client(spec['size'], rng, stats)
    raise ValueError(fl)

"""Evidence files, replay files, known findings, verdict printing."""

import json
import os
import sys
import time

from . import env

# (mutant self-tests redirect both so that they never overwrite the evidence
# of the real tree)
EVIDENCE_DIR = os.environ.get('VERIF_EVIDENCE_DIR') or os.path.join(
    env.VERIF_ROOT, 'evidence')
REPLAY_DIR = os.environ.get('VERIF_REPLAY_DIR') or os.path.join(
    env.VERIF_ROOT, 'replays')
KNOWN_FILE = os.path.join(env.VERIF_ROOT, 'known_findings.json')

COMPONENTS = dict(
    real=['nautilus/* from the tree under test (sampler, bounds, prior, '
          'neural, pool wrapper)', 'numpy', 'scipy', 'scikit-learn '
          '(GaussianMixture, MLPRegressor)', 'h5py + libhdf5 (sec2 driver)',
          'tmpfs under /dev/shm', 'pickle (pool isolation)'],
    stub=['worker pools (SimPool: ordered map, pickled tasks, seeded '
          'execution order; flavours mp/executor/mpi/dask-like)',
          'wall clock (SimClock installed as nautilus.sampler.time)',
          'user likelihood and prior (library of pure functions with a call '
          'recorder)', 'process death (SimKill raised from the likelihood; '
          '_exit at a file operation in E2)',
          'threadpoolctl.threadpool_limits (no-op: every process is pinned '
          'to one BLAS/OpenMP thread by the environment)'])


def load_known():
    if not os.path.exists(KNOWN_FILE):
        return []
    with open(KNOWN_FILE) as f:
        return json.load(f).get('findings', [])


def match_known(prop, violation, case=None):
    """Return the known-finding entry (status 'known') matching a violation,
    or None.  'fixed' entries never match anything."""
    for e in load_known():
        if e.get('status') != 'known' or e.get('property') != prop:
            continue
        m = e.get('match', {})
        if 'cls' in m and m['cls'] != violation.get('cls'):
            continue
        msg = violation.get('msg', '')
        if any(sub not in msg for sub in m.get('msg_contains', [])):
            continue
        if 'msg_regex' in m:
            import re
            if not re.search(m['msg_regex'], msg):
                continue
        return e
    return None


def write_replay(prop, seed, run, payload):
    os.makedirs(REPLAY_DIR, exist_ok=True)
    path = os.path.join(REPLAY_DIR, '{}-{}-{}.json'.format(prop, seed, run))
    payload = dict(payload)
    payload.setdefault('property', prop)
    payload.setdefault('seed', seed)
    payload.setdefault('run', run)
    with open(path, 'w') as f:
        json.dump(payload, f, indent=1, sort_keys=True, default=repr)
    return path


def write_evidence(prop, level, coverage, wall_s, violations=0,
                   assumptions=None, extra=None):
    os.makedirs(EVIDENCE_DIR, exist_ok=True)
    ev = dict(property_id=prop, tier=env.tier(), seed=env.seed(),
              level=level, coverage=coverage, wall_s=round(wall_s, 2),
              violations=int(violations),
              assumptions=assumptions or [])
    if extra:
        ev.update(extra)
    path = os.path.join(EVIDENCE_DIR, prop + '.json')
    tmp = path + '.tmp'
    with open(tmp, 'w') as f:
        json.dump(ev, f, indent=1, sort_keys=True, default=repr)
    os.replace(tmp, path)
    return path


def say(msg):
    sys.stdout.write(msg + '\n')
    sys.stdout.flush()


class Verdict:
    """Collects what a check found and ends the process accordingly."""

    def __init__(self, prop):
        self.prop = prop
        self.violations = []    # (violation dict, replay path)
        self.known = []
        self.harness_errors = []
        self.t0 = time.time()

    def add_violation(self, violation, replay_path, case=None):
        e = match_known(self.prop, violation, case)
        if e is not None:
            self.known.append((e, violation))
            say('KNOWN-FINDING: property={} {}'.format(
                self.prop, e.get('what', violation.get('msg', ''))))
        else:
            self.violations.append((violation, replay_path))
            say('VIOLATION property={} replay={}'.format(
                self.prop, replay_path))
            say('  class={} {}'.format(violation.get('cls'),
                                       violation.get('msg')))

    def exit_code(self):
        if self.harness_errors:
            return env.EXIT_HARNESS
        if self.violations:
            return env.EXIT_VIOLATION
        return env.EXIT_OK

"""Parallel execution of simulated runs: one forked worker per run index.

* fork context after nautilus has been imported in the parent (no 4 s import per
  worker), one BLAS thread each;
* every task gets a hard wall limit (faulthandler dumps and exits the worker);
* a dead worker is a harness error, never a hang and never a pass.
"""

import concurrent.futures as cf
import faulthandler
import multiprocessing as mp
import os
import sys
import time
import traceback


class HarnessError(Exception):
    pass


def _call(fn, arg, hard_wall):
    if hard_wall:
        faulthandler.dump_traceback_later(hard_wall, exit=True)
    try:
        return ('ok', fn(arg))
    except BaseException:
        return ('exc', traceback.format_exc())
    finally:
        if hard_wall:
            faulthandler.cancel_dump_traceback_later()


def run_parallel(fn, args, workers=16, hard_wall=600, budget_s=None,
                 progress=None):
    """Apply fn to every arg in forked workers; results in input order.

    If budget_s is given, tasks not yet started when it expires are skipped
    (result None) - run counts, not wall time, define coverage, but a check
    must also end."""
    args = list(args)
    results = [None] * len(args)
    if not args:
        return results
    t0 = time.time()
    if workers <= 1:
        for i, a in enumerate(args):
            if budget_s is not None and time.time() - t0 > budget_s:
                break
            st, val = _call(fn, a, 0)
            if st == 'exc':
                raise HarnessError('task {} raised:\n{}'.format(i, val))
            results[i] = val
        return results
    ctx = mp.get_context('fork')
    sys.stdout.flush()
    sys.stderr.flush()
    with cf.ProcessPoolExecutor(max_workers=workers, mp_context=ctx) as ex:
        pending = {}
        it = iter(enumerate(args))
        exhausted = False

        def submit_next():
            nonlocal exhausted
            if exhausted:
                return
            if budget_s is not None and time.time() - t0 > budget_s:
                exhausted = True
                return
            try:
                i, a = next(it)
            except StopIteration:
                exhausted = True
                return
            pending[ex.submit(_call, fn, a, hard_wall)] = i

        for _ in range(workers * 2):
            submit_next()
        while pending:
            done, _ = cf.wait(list(pending), timeout=hard_wall + 60,
                              return_when=cf.FIRST_COMPLETED)
            if not done:
                for f in pending:
                    f.cancel()
                raise HarnessError('workers stalled for {} s'.format(
                    hard_wall + 60))
            for f in done:
                i = pending.pop(f)
                try:
                    st, val = f.result()
                except cf.process.BrokenProcessPool:
                    raise HarnessError(
                        'a worker died (task {}); hard wall {} s'.format(
                            i, hard_wall))
                if st == 'exc':
                    raise HarnessError('task {} raised:\n{}'.format(i, val))
                results[i] = val
                if progress:
                    progress(i, val)
                submit_next()
    return results

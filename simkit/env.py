"""Environment pinning and selection of the tree under test.

Every simulated process runs with one BLAS/OpenMP thread and a fixed
PYTHONHASHSEED so that "bit-identical" means something and one integer
(VERIF_SEED) decides a run.  `bootstrap()` re-executes the interpreter once if
the environment is not pinned yet, then puts the repository under test first on
sys.path and checks that `nautilus` really was imported from there.
"""

import os
import sys

PIN = {
    'OMP_NUM_THREADS': '1',
    'OPENBLAS_NUM_THREADS': '1',
    'MKL_NUM_THREADS': '1',
    'NUMEXPR_NUM_THREADS': '1',
    'VECLIB_MAXIMUM_THREADS': '1',
    'PYTHONHASHSEED': '0',
    'PYTHONDONTWRITEBYTECODE': '1',
}

VERIF_ROOT = os.path.dirname(os.path.dirname(os.path.abspath(__file__)))

EXIT_OK = 0
EXIT_VIOLATION = 1
EXIT_HARNESS = 2
EXIT_TIMEOUT = 3


def repo_path():
    return os.path.abspath(os.environ.get('VERIF_REPO', '/repo'))


def scratch_root():
    """Private scratch directory root (tmpfs, outside /repo and /verif)."""
    base = os.environ.get('VERIF_SCRATCH')
    if base is None:
        base = '/dev/shm' if os.path.isdir('/dev/shm') else '/tmp'
    return base


def bootstrap(allow_hashseed=False):
    """Pin the environment (re-exec once if necessary) and select the repo."""
    need = {}
    for k, v in PIN.items():
        if k == 'PYTHONHASHSEED' and allow_hashseed and k in os.environ:
            continue
        if os.environ.get(k) != v:
            need[k] = v
    if need and os.environ.get('VERIF_REEXEC') != '1':
        env = dict(os.environ)
        env.update(need)
        env['VERIF_REEXEC'] = '1'
        os.execve(sys.executable, [sys.executable] + sys.argv, env)
    for k, v in need.items():
        os.environ[k] = v

    rp = repo_path()
    if VERIF_ROOT not in sys.path:
        sys.path.insert(0, VERIF_ROOT)
    # the tree under test goes first, in front of the editable install
    if rp in sys.path:
        sys.path.remove(rp)
    sys.path.insert(0, rp)
    _stub_threadpoolctl()
    import nautilus
    got = os.path.dirname(os.path.dirname(os.path.abspath(nautilus.__file__)))
    if os.path.realpath(got) != os.path.realpath(rp):
        sys.stdout.write('HARNESS-ERROR: nautilus imported from {} instead of '
                         '{}\n'.format(got, rp))
        sys.exit(EXIT_HARNESS)
    return rp


class _NoLimits:
    """No-op stand-in for threadpoolctl.threadpool_limits.

    Every simulated process is already pinned to one BLAS/OpenMP thread by the
    environment, so limiting again changes nothing - but the real class
    re-scans /proc/self/maps on every use (about 10 ms, 20 % of a simulated
    run).  Installed before nautilus is imported so that its decorators use
    it too.  Listed as a stub in the evidence."""

    def __init__(self, *a, **k):
        pass

    def __enter__(self):
        return self

    def __exit__(self, *a):
        return False

    @classmethod
    def wrap(cls, *a, **k):
        def deco(f):
            return f
        return deco

    def restore_original_limits(self):
        pass

    unregister = restore_original_limits


def _stub_threadpoolctl():
    if os.environ.get('VERIF_REAL_THREADPOOLCTL') == '1':
        return
    import threadpoolctl
    threadpoolctl.threadpool_limits = _NoLimits


def tier():
    t = os.environ.get('VERIF_TIER', 'quick')
    return t if t in ('quick', 'thorough') else 'quick'


def seed():
    try:
        return int(os.environ.get('VERIF_SEED', '0'))
    except ValueError:
        return 0


def n_workers():
    try:
        return max(1, int(os.environ.get('VERIF_WORKERS', '16')))
    except ValueError:
        return 16

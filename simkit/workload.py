"""The simulated client: pure likelihoods, priors, blobs, and the call recorder.

Likelihoods are built from + - * /, comparisons, floor, abs, min/max only
(correctly rounded IEEE operations, no exp/log/pow), applied per coordinate with
an explicit left-to-right accumulation, so that scalar and vectorised
evaluation give bit-identical results by construction (selfcheck() verifies).
"""

import numpy as np

FAMILIES = ['gauss', 'rotgauss', 'twomode', 'banana', 'halfspace', 'stairs',
            'wrap', 'flat', 'ring', 'speckle', 'lattice']
BLOBS = ['none', 'float', 'int', 'two', 'struct', 'multi_f32', 'array']
PRIORS = ['fn', 'fn_inplace', 'obj', 'obj_array', 'fn_dict']


class SimKill(BaseException):
    """Process death injected during a likelihood evaluation."""


def keys_for(n_dim):
    return ['p{}'.format(i) for i in range(n_dim)]


# ---------------------------------------------------------------------------
# likelihood families: cols is a list of n_dim coordinates, each a numpy
# float64 scalar or a 1-D array; the result has the same shape.
# ---------------------------------------------------------------------------

def _ll_gauss(cols, p):
    acc = 0.0
    for c, m, s in zip(cols, p['mu'], p['sig']):
        d = (c - m) / s
        acc = acc + d * d
    return acc * -0.5


def _ll_rotgauss(cols, p):
    # rotate the first two coordinates by a fixed (cos, sin), then gauss
    cs, sn = p['cs'], p['sn']
    d0 = cols[0] - p['mu'][0]
    d1 = cols[1] - p['mu'][1]
    r0 = (d0 * cs + d1 * sn) / p['sig'][0]
    r1 = (d1 * cs - d0 * sn) / p['sig'][1]
    acc = r0 * r0 + r1 * r1
    for c, m, s in zip(cols[2:], p['mu'][2:], p['sig'][2:]):
        d = (c - m) / s
        acc = acc + d * d
    return acc * -0.5


def _ll_twomode(cols, p):
    a = 0.0
    b = 0.0
    for c, m1, m2, s in zip(cols, p['mu1'], p['mu2'], p['sig']):
        d1 = (c - m1) / s
        d2 = (c - m2) / s
        a = a + d1 * d1
        b = b + d2 * d2
    return np.maximum(a * -0.5, b * -0.5 + p['off'])


def _ll_banana(cols, p):
    x = (cols[0] - p['mu'][0]) / p['sig'][0]
    y = (cols[1] - p['mu'][1]) / p['sig'][1]
    t = y - p['curv'] * (x * x - 1.0)
    acc = x * x + t * t * p['tight']
    for c, m, s in zip(cols[2:], p['mu'][2:], p['sig'][2:]):
        d = (c - m) / s
        acc = acc + d * d
    return acc * -0.5


def _ll_halfspace(cols, p):
    # -inf below a face; polynomial ramp above it
    acc = 0.0
    for c, m, s in zip(cols[1:], p['mu'][1:], p['sig'][1:]):
        d = (c - m) / s
        acc = acc + d * d
    ramp = (cols[0] - p['thr']) * p['slope']
    val = ramp + acc * -0.5
    return np.where(cols[0] < p['thr'], -np.inf, val)


def _ll_stairs(cols, p):
    g = _ll_gauss(cols, p)
    return np.floor(g * p['steps']) / p['steps']


def _ll_wrap(cols, p):
    # coordinate 0 is periodic: distance on the circle of the unit coordinate
    d = np.abs(cols[0] - p['mu'][0])
    d = np.minimum(d, p['period'] - d) / p['sig'][0]
    acc = d * d
    for c, m, s in zip(cols[1:], p['mu'][1:], p['sig'][1:]):
        e = (c - m) / s
        acc = acc + e * e
    return acc * -0.5


def _ll_ring(cols, p):
    # thin ring in the first two coordinates: bounds that are not nested
    dx = (cols[0] - p['mu'][0]) / p['rad']
    dy = (cols[1] - p['mu'][1]) / p['rad']
    r = np.sqrt(dx * dx + dy * dy)
    d = (r - 1.0) / p['thick']
    acc = d * d
    for c, m, s in zip(cols[2:], p['mu'][2:], p['sig'][2:]):
        e = (c - m) / s
        acc = acc + e * e
    return acc * -0.5


def _ll_speckle(cols, p):
    # a compact peak plus a distant lattice of tiny bumps: sparse outlying
    # ellipsoids that the bound construction may trim away
    best = _ll_gauss(cols, dict(mu=p['mu'], sig=p['sig']))
    for b in p['bumps']:
        acc = 0.0
        for c, m in zip(cols, b):
            d = (c - m) / p['bsig']
            acc = acc + d * d
        best = np.maximum(best, acc * -0.5 + p['boff'])
    return best


def _ll_lattice(cols, p):
    # a 4 x 4 lattice of equal peaks: bounds with many ellipsoids
    best = None
    for b in p['peaks']:
        acc = 0.0
        for c, m in zip(cols, b):
            d = (c - m) / p['psig']
            acc = acc + d * d
        v = acc * -0.5
        best = v if best is None else np.maximum(best, v)
    return best


def _ll_flat(cols, p):
    return cols[0] * 0.0 + p['value']


_LL = dict(gauss=_ll_gauss, rotgauss=_ll_rotgauss, twomode=_ll_twomode,
           banana=_ll_banana, halfspace=_ll_halfspace, stairs=_ll_stairs,
           wrap=_ll_wrap, flat=_ll_flat, ring=_ll_ring,
           speckle=_ll_speckle, lattice=_ll_lattice)

BLOB_DTYPE_USER = {
    'none': None, 'float': None, 'int': None, 'two': None,
    'struct': [('a', '|S8'), ('b', '<i2')],
    'multi_f32': 'float32',
    'array': 'float32',
}


def blob_values(kind, cols):
    """What the likelihood returns as blobs (tuple; may be empty)."""
    c0, c1 = cols[0], cols[1]
    scalar = np.ndim(c0) == 0
    if kind == 'none':
        return ()
    if kind == 'float':
        return (c0 * 2.0 + 1.0, )
    if kind == 'int':
        v = np.floor(c0 * 1000.0)
        return (np.int64(v) if scalar else v.astype(np.int64), )
    if kind == 'two':
        v = np.floor(c1 * 1000.0)
        return (np.float32(c0) if scalar else c0.astype(np.float32),
                np.int64(v) if scalar else v.astype(np.int64))
    if kind == 'struct':
        a = np.floor(np.abs(c0) * 1000.0)
        b = np.floor(c1 * 100.0)
        if scalar:
            return (np.bytes_(str(int(a)).encode()), np.int16(b))
        return (a.astype(np.int64).astype('S8'), b.astype(np.int16))
    if kind == 'multi_f32':
        return (c0, c1)
    if kind == 'array':
        if scalar:
            return (np.array([c0, c1, c0 * c1]), )
        return (np.stack([c0, c1, c0 * c1], axis=-1), )
    raise ValueError(kind)


def expected_blob_bytes(kind, row):
    """Bytes of the blob the sampler must store for physical point `row`.

    Written from first principles (what the user returned, cast to the dtype
    the user asked for or nautilus documents to infer), not by replaying
    nautilus' array construction.
    """
    c0, c1 = np.float64(row[0]), np.float64(row[1])
    if kind == 'float':
        return np.float64(c0 * 2.0 + 1.0).tobytes()
    if kind == 'int':
        return np.int64(np.floor(c0 * 1000.0)).tobytes()
    if kind == 'two':
        return (np.float32(c0).tobytes() +
                np.int64(np.floor(c1 * 1000.0)).tobytes())
    if kind == 'struct':
        a = str(int(np.floor(np.abs(c0) * 1000.0))).encode()[:8]
        a = a + b'\x00' * (8 - len(a))
        return a + np.int16(np.floor(c1 * 100.0)).tobytes()
    if kind == 'multi_f32':
        return np.array([c0, c1], dtype=np.float32).tobytes()
    if kind == 'array':
        return np.array([c0, c1, c0 * c1], dtype=np.float32).tobytes()
    raise ValueError(kind)


class Recorder:
    """Ground truth about what the likelihood was asked and what it said."""

    def __init__(self):
        self.reset()

    def reset(self):
        self.calls = []          # (key bytes, ll bytes) in evaluation order
        self.first = {}          # key -> index of first evaluation
        self.repeats = []        # (index, key) of repeated arguments
        self.n_rows = 0
        self.n_calls = 0
        self.batch = -1          # index of the evaluate_likelihood invocation
        self.row_in_batch = 0
        self.batch_rows = {}     # batch -> rows evaluated
        self.batch_calls = {}    # batch -> likelihood invocations
        self.kill = None         # (batch, row) or None
        self.kills_fired = 0
        self.cost = 0.0          # simulated seconds per evaluated row
        self.stall = {}          # batch -> extra simulated seconds
        self.clock = None
        self.row_times = []      # simulated time at which each row started
        self.prior_rows = 0
        self.prior_bad = []      # unit-cube rows outside [0, 1)

    def begin_batch(self):
        self.batch += 1
        self.row_in_batch = 0
        self.batch_rows[self.batch] = 0
        self.batch_calls[self.batch] = 0
        if self.clock is not None and self.batch in self.stall:
            self.clock.advance(self.stall[self.batch])

    def arm_kill(self, batch_offset, row):
        """Kill at row `row` of the batch `batch_offset` batches from now."""
        self.kill = (self.batch + 1 + batch_offset, row)

    def on_call(self, n_rows):
        self.n_calls += 1
        self.batch_calls[self.batch] = self.batch_calls.get(self.batch, 0) + 1
        if self.kill is not None and self.kill[0] == self.batch and (
                self.row_in_batch <= self.kill[1] <
                self.row_in_batch + n_rows or self.kill[1] < 0):
            self.kill = None
            self.kills_fired += 1
            raise SimKill()

    def on_rows(self, phys, ll):
        phys = np.ascontiguousarray(np.atleast_2d(phys), dtype=np.float64)
        ll = np.atleast_1d(np.asarray(ll, dtype=np.float64))
        for r, v in zip(phys, ll):
            k = r.tobytes()
            idx = len(self.calls)
            self.calls.append((k, v.tobytes()))
            if k in self.first:
                self.repeats.append((idx, k))
            else:
                self.first[k] = idx
            if self.clock is not None:
                self.row_times.append(self.clock.now)
                self.clock.advance(self.cost)
        n = len(phys)
        self.n_rows += n
        self.row_in_batch += n
        self.batch_rows[self.batch] = self.batch_rows.get(self.batch, 0) + n


REC = Recorder()


class Lik:
    """Picklable pure likelihood.  Copies made by pickling (pool workers)
    report to the same process-global recorder (the pool is simulated
    in-process); the *arguments* do go through pickle isolation."""

    def __init__(self, spec):
        self.spec = spec
        self.family = spec['family']
        self.n_dim = spec['n_dim']
        self.p = spec['params']
        self.blob = spec['blob']
        self.as_dict = spec['arg'] == 'dict'
        self.keys = keys_for(self.n_dim)

    def __reduce__(self):
        return (Lik, (self.spec, ))

    def cols(self, arg):
        if self.as_dict:
            return [np.asarray(arg[k], dtype=np.float64)[()]
                    for k in self.keys]
        a = np.asarray(arg, dtype=np.float64)
        return [a[..., i] for i in range(self.n_dim)]

    def pure(self, arg):
        cols = self.cols(arg)
        ll = _LL[self.family](cols, self.p)
        if np.ndim(ll) == 0:
            ll = np.float64(ll)
        return ll, blob_values(self.blob, cols), cols

    def __call__(self, arg):
        cols = self.cols(arg)
        n_rows = 1 if np.ndim(cols[0]) == 0 else len(cols[0])
        REC.on_call(n_rows)
        ll, blobs, cols = self.pure(arg)
        REC.on_rows(np.stack(cols, axis=-1), ll)
        if len(blobs) == 0:
            return ll
        return (ll, ) + tuple(blobs)


# ---------------------------------------------------------------------------
# priors
# ---------------------------------------------------------------------------

class PriorFn:
    """Prior given as a function of the unit-cube point(s)."""

    def __init__(self, lo, hi, mode):
        self.lo = [float(v) for v in lo]
        self.hi = [float(v) for v in hi]
        self.mode = mode    # 'fn', 'fn_inplace', 'fn_dict'
        self.keys = keys_for(len(lo))

    def __reduce__(self):
        return (PriorFn, (self.lo, self.hi, self.mode))

    def _check(self, u):
        a = np.atleast_2d(u)
        REC.prior_rows += len(a)
        bad = ~np.all((a >= 0) & (a < 1), axis=-1)
        if np.any(bad):
            REC.prior_bad.extend(r.tobytes() for r in a[bad])

    def __call__(self, u):
        self._check(u)
        if self.mode == 'fn_inplace':
            for i in range(len(self.lo)):
                u[..., i] *= (self.hi[i] - self.lo[i])
                u[..., i] += self.lo[i]
            return u
        x = np.empty_like(u)
        for i in range(len(self.lo)):
            x[..., i] = u[..., i] * (self.hi[i] - self.lo[i]) + self.lo[i]
        if self.mode == 'fn_dict':
            return {k: x[..., i] for i, k in enumerate(self.keys)}
        return x


def make_prior_obj(lo, hi, extra=None):
    """nautilus.Prior with uniform ranges; `extra` is a declaration layout:
    a list of ['free', i] / ['fixed', key, value] / ['link', key, target] in
    declaration order (fixed and linked keys anywhere between the free
    ones)."""
    from nautilus import Prior
    prior = Prior()
    keys = keys_for(len(lo))
    if not extra:
        extra = [['free', i] for i in range(len(lo))]
    for e in extra:
        if e[0] == 'free':
            i = e[1]
            prior.add_parameter(keys[i], dist=(float(lo[i]), float(hi[i])))
        elif e[0] == 'fixed':
            prior.add_parameter(e[1], dist=e[2])
        else:
            prior.add_parameter(e[1], dist=e[2])
    return prior


def draw_prior_layout(rng, n_dim):
    layout = [['free', i] for i in range(n_dim)]
    if rng.random() < 0.5:
        return layout
    keys = keys_for(n_dim)
    n_extra = rng.choice([1, 2, 3])
    for j in range(n_extra):
        pos = rng.randrange(0, len(layout) + 1)
        declared = [(keys[e[1]] if e[0] == 'free' else e[1])
                    for e in layout[:pos]]
        if declared and rng.random() < 0.6:
            layout.insert(pos, ['link', 'link_{}'.format(j),
                                rng.choice(declared)])
        else:
            layout.insert(pos, ['fixed', 'fixed_{}'.format(j),
                                rng.choice([2.5, -1.0, 0])])
    return layout


def phys_rows_from_posterior(points, n_dim, as_dict_return):
    """Canonical (n, n_dim) float64 array of the rows posterior() returned."""
    keys = keys_for(n_dim)
    if isinstance(points, dict):
        return np.stack([np.asarray(points[k], dtype=np.float64)
                         for k in keys], axis=-1)
    points = np.asarray(points)
    if points.size == 0:
        return np.zeros((0, n_dim), dtype=np.float64)
    if points.dtype == object:      # array of dicts (scalar fn_dict prior)
        return np.array([[np.float64(d[k]) for k in keys] for d in points],
                        dtype=np.float64).reshape(len(points), n_dim)
    return np.asarray(points, dtype=np.float64)


# ---------------------------------------------------------------------------
# drawing a workload
# ---------------------------------------------------------------------------

def draw_lik_spec(rng, n_dim, family=None, blob=None, prior=None,
                  vectorized=None, periodic_ok=True):
    """Draw a likelihood/prior specification (JSON-serialisable)."""
    if family is None:
        family = rng.choice(['gauss', 'gauss', 'rotgauss', 'twomode',
                             'twomode', 'banana', 'banana', 'halfspace',
                             'stairs', 'wrap', 'flat', 'ring', 'ring',
                             'speckle']
                            if periodic_ok else
                            ['gauss', 'rotgauss', 'twomode', 'banana',
                             'halfspace', 'stairs'])
    if blob is None:
        blob = rng.choice(['none', 'none', 'none', 'float', 'int', 'two',
                           'struct', 'multi_f32', 'array'])
    if prior is None:
        prior = rng.choice(['fn', 'fn', 'fn_inplace', 'obj', 'obj_array',
                            'fn_dict'])
    if vectorized is None:
        vectorized = rng.random() < 0.4
    # physical box
    # (with the unit box an in-place prior is the identity and modifying the
    # argument is invisible, so that prior never gets the unit box)
    if family == 'wrap' or (rng.random() < 0.35 and prior != 'fn_inplace'):
        lo, hi = [0.0] * n_dim, [1.0] * n_dim
    else:
        lo = [rng.choice([-5.0, -1.0, 0.0, 2.0]) for _ in range(n_dim)]
        hi = [l + rng.choice([1.0, 4.0, 10.0]) for l in lo]
    w = [h - l for l, h in zip(lo, hi)]

    def centre(lo_f=0.25, hi_f=0.75):
        return [l + wi * rng.uniform(lo_f, hi_f) for l, wi in zip(lo, w)]

    def widths(a=0.06, b=0.2):
        return [wi * rng.uniform(a, b) for wi in w]

    p = {}
    if family in ('gauss', 'stairs'):
        p = dict(mu=centre(), sig=widths())
        if family == 'stairs':
            p['steps'] = rng.choice([0.5, 1.0, 2.0])
        if rng.random() < 0.25:     # hug a face / corner
            p['mu'][0] = lo[0] + w[0] * rng.choice([0.01, 0.99])
    elif family == 'rotgauss':
        cs = rng.choice([0.6, 0.8, 0.28])
        sn = {0.6: 0.8, 0.8: 0.6, 0.28: 0.96}[cs]
        s = widths(0.04, 0.08)
        s[0] = w[0] * rng.uniform(0.15, 0.25)
        p = dict(mu=centre(0.4, 0.6), sig=s, cs=cs, sn=sn)
    elif family == 'twomode':
        m1 = centre(0.15, 0.35)
        m2 = centre(0.65, 0.85)
        p = dict(mu1=m1, mu2=m2, sig=widths(0.04, 0.09),
                 off=rng.choice([0.0, -0.5, -2.0]))
    elif family == 'banana':
        p = dict(mu=centre(0.4, 0.6), sig=widths(0.07, 0.14),
                 curv=rng.choice([0.5, 1.0, 1.5]),
                 tight=rng.choice([4.0, 16.0]))
    elif family == 'halfspace':
        p = dict(mu=centre(), sig=widths(0.05, 0.15),
                 thr=lo[0] + w[0] * rng.uniform(0.2, 0.7),
                 slope=rng.choice([1.0, 5.0, 20.0]) / w[0])
    elif family == 'wrap':
        p = dict(mu=centre(), sig=widths(0.05, 0.12), period=1.0)
        p['mu'][0] = rng.choice([0.0, 0.02, 0.97])
    elif family == 'flat':
        p = dict(value=rng.choice([0.0, -3.5]))
    elif family == 'speckle':
        mu = centre(0.2, 0.3)
        far = [l + wi * 0.75 for l, wi in zip(lo, w)]
        bumps = []
        for i in (-1, 0, 1):
            for j in (-1, 0, 1):
                b = list(far)
                b[0] += i * w[0] * 0.08
                b[1] += j * w[1] * 0.08
                bumps.append(b)
        p = dict(mu=mu, sig=widths(0.03, 0.06), bumps=bumps,
                 bsig=min(w) * rng.choice([0.004, 0.008]),
                 boff=rng.choice([0.0, -1.0]))
    elif family == 'lattice':
        mid = [l + wi * 0.5 for l, wi in zip(lo, w)]
        peaks = []
        for i in range(4):
            for j in range(4):
                b = list(mid)
                b[0] = lo[0] + w[0] * (0.14 + 0.24 * i)
                b[1] = lo[1] + w[1] * (0.14 + 0.24 * j)
                peaks.append(b)
        p = dict(peaks=peaks, psig=min(w) * rng.choice([0.012, 0.02]))
    elif family == 'ring':
        p = dict(mu=centre(0.45, 0.55), sig=widths(0.08, 0.2),
                 rad=min(w[0], w[1]) * rng.uniform(0.25, 0.35),
                 thick=rng.choice([0.05, 0.1, 0.2]))
        if rng.random() < 0.4:
            # a thin ring that touches all four sides of the (x0, x1) square
            # and is narrow in the other coordinates: the greedy phase of
            # UnitCubeEllipsoidMixture.compute ends with a volume above one
            # and its fallback phase chooses the ellipsoid (probe
            # mixture_fallback_branch; seeded change R3-C11-A)
            p['mu'][0] = lo[0] + w[0] * 0.5
            p['mu'][1] = lo[1] + w[1] * 0.5
            p['rad'] = min(w[0], w[1]) * rng.uniform(0.38, 0.43)
            p['thick'] = 0.05
            p['sig'] = widths(0.04, 0.07)
    arg = 'dict' if prior in ('obj', 'fn_dict') else 'array'
    spec = dict(family=family, n_dim=n_dim, params=p, blob=blob, arg=arg,
                prior=prior, vectorized=bool(vectorized), lo=lo, hi=hi)
    if prior in ('obj', 'obj_array'):
        spec['prior_extra'] = draw_prior_layout(rng, n_dim)
    return spec


def build_client(spec):
    """Return (prior, likelihood, sampler kwargs) for a spec."""
    lik = Lik(spec)
    kw = dict(vectorized=spec['vectorized'])
    pr = spec['prior']
    if pr in ('fn', 'fn_inplace', 'fn_dict'):
        prior = PriorFn(spec['lo'], spec['hi'], pr)
        kw['n_dim'] = spec['n_dim']
        kw['pass_dict'] = (pr == 'fn_dict')
    else:
        prior = make_prior_obj(spec['lo'], spec['hi'],
                               extra=spec.get('prior_extra'))
        kw['pass_dict'] = (pr == 'obj')
    bd = BLOB_DTYPE_USER[spec['blob']]
    if bd is not None:
        kw['blobs_dtype'] = bd if isinstance(bd, str) else [
            tuple(x) for x in bd]
    return prior, lik, kw


def selfcheck(n=64):
    """Scalar and vectorised evaluation must agree bit for bit."""
    import random
    rng = random.Random(12345)
    bad = []
    for family in FAMILIES:
        for blob in BLOBS:
            for prior in ('fn', 'fn_dict'):
                spec = draw_lik_spec(rng, 3, family=family, blob=blob,
                                     prior=prior, vectorized=True)
                lik = Lik(spec)
                pf = PriorFn(spec['lo'], spec['hi'], prior)
                u = np.random.default_rng(rng.getrandbits(32)).random((n, 3))
                REC.reset()
                xa = pf(u.copy())
                ll_v, blobs_v, _ = lik.pure(xa)
                for i in range(n):
                    xi = pf(u[i].copy())
                    ll_s, blobs_s, _ = lik.pure(xi)
                    if np.float64(ll_s).tobytes() != np.float64(
                            ll_v[i]).tobytes():
                        bad.append((family, blob, prior, 'll'))
                    for bs, bv in zip(blobs_s, blobs_v):
                        if np.asarray(bs).tobytes() != np.asarray(
                                bv[i]).tobytes():
                            bad.append((family, blob, prior, 'blob'))
    REC.reset()
    return bad

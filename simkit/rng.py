"""One PRNG per simulated run, derived from (property, tier, VERIF_SEED, run)."""

import hashlib
import random


def run_rng(prop, tier, seed, run, salt=''):
    h = hashlib.sha256('{}|{}|{}|{}|{}'.format(
        prop, tier, seed, run, salt).encode()).digest()
    return random.Random(int.from_bytes(h[:16], 'big'))


def child_rng(rng, label):
    """Independent stream forked from `rng` (consumes one draw)."""
    h = hashlib.sha256('{}|{}'.format(rng.getrandbits(64), label).encode())
    return random.Random(int.from_bytes(h.digest()[:16], 'big'))

"""Stub of a dask-like client.  nautilus selects its dask branch by looking for
'distributed.client.Client' in str(type(pool)); this class carries that name."""

from ..simpool import _SimPoolBase


class _Future:
    def __init__(self, value):
        self.value = value


class Client(_SimPoolBase):
    flavour = 'dask'

    def __init__(self, size, rng, stats=None):
        _SimPoolBase.__init__(self, size, rng, stats)

    def nthreads(self):
        return {'tcp://sim:{}'.format(i): 1 for i in range(self._n)}

    def map(self, func, iterable):
        return [_Future(v) for v in self._run(func, iterable)]

    def gather(self, futures):
        return [f.value for f in futures]

"""Simulated clock: the only clock nautilus.sampler ever reads."""


class SimClock:
    def __init__(self):
        self.now = 1.0e9
        self.reads = 0

    def reset(self, now=1.0e9):
        self.now = now
        self.reads = 0

    def time(self):
        self.reads += 1
        return self.now

    def advance(self, dt):
        self.now += dt


CLOCK = SimClock()


def install():
    """Replace the `time` name nautilus.sampler imported from the time module."""
    import nautilus.sampler as ns
    if not hasattr(ns, 'time'):
        raise RuntimeError('seam missing: nautilus.sampler.time')
    ns.time = CLOCK.time
    return CLOCK

/* iosim - libc interposer for the crash-point engine (E2, property C06).
 *
 * Loaded with LD_PRELOAD under the real h5py / libhdf5 (sec2 driver) and
 * CPython.  Every libc entry point through which a file below IOSIM_DIR can
 * change is intercepted.  Two modes:
 *
 *   record   (IOSIM_LOG=<file>): append one binary record per operation, with
 *            its payload, to the log; iosim_mark() lets the harness interleave
 *            markers.
 *   stop-at  (IOSIM_STOP_AT=<n>): _exit(137) immediately before the n-th
 *            operation (after transferring IOSIM_TORN bytes of it, if set and
 *            the operation is a write) - what SIGKILL does.
 *
 * Only operations on paths below IOSIM_DIR are seen; everything else passes
 * through untouched.  mmap(PROT_WRITE, MAP_SHARED) of a watched file is logged
 * so that the harness can refuse to give a verdict (unmodelled I/O).
 */
#define _GNU_SOURCE
#include <dlfcn.h>
#include <errno.h>
#include <fcntl.h>
#include <limits.h>
#include <pthread.h>
#include <stdarg.h>
#include <stdint.h>
#include <stdio.h>
#include <stdlib.h>
#include <string.h>
#include <sys/mman.h>
#include <sys/sendfile.h>
#include <sys/stat.h>
#include <sys/types.h>
#include <sys/uio.h>
#include <time.h>
#include <unistd.h>

enum { K_OPEN = 1, K_WRITE, K_TRUNC, K_UNLINK, K_RENAME, K_CLOSE, K_FSYNC,
       K_MMAP, K_MARK, K_COPY, K_FALLOC, K_LINK };

#define MAXFD 4096
static char *fdpath[MAXFD];
static const char *g_dir = NULL;
static size_t g_dirlen = 0;
static int g_logfd = -1;
static long g_stop_at = 0;
static long g_torn = -1;
static long g_count = 0;
static int g_init = 0;
static __thread int g_busy = 0;
static pthread_mutex_t g_mu = PTHREAD_MUTEX_INITIALIZER;

static int (*r_open)(const char *, int, ...);
static int (*r_open64)(const char *, int, ...);
static int (*r_openat)(int, const char *, int, ...);
static int (*r_openat64)(int, const char *, int, ...);
static int (*r_creat)(const char *, mode_t);
static ssize_t (*r_write)(int, const void *, size_t);
static ssize_t (*r_pwrite)(int, const void *, size_t, off_t);
static ssize_t (*r_pwrite64)(int, const void *, size_t, off64_t);
static ssize_t (*r_writev)(int, const struct iovec *, int);
static ssize_t (*r_pwritev)(int, const struct iovec *, int, off_t);
static int (*r_ftruncate)(int, off_t);
static int (*r_ftruncate64)(int, off64_t);
static int (*r_truncate)(const char *, off_t);
static int (*r_unlink)(const char *);
static int (*r_unlinkat)(int, const char *, int);
static int (*r_remove)(const char *);
static int (*r_rename)(const char *, const char *);
static int (*r_renameat)(int, const char *, int, const char *);
static int (*r_renameat2)(int, const char *, int, const char *, unsigned);
static int (*r_link)(const char *, const char *);
static int (*r_close)(int);
static int (*r_fsync)(int);
static int (*r_fdatasync)(int);
static int (*r_dup)(int);
static int (*r_dup2)(int, int);
static int (*r_dup3)(int, int, int);
static void *(*r_mmap)(void *, size_t, int, int, int, off_t);
static ssize_t (*r_sendfile)(int, int, off_t *, size_t);
static ssize_t (*r_copy_file_range)(int, off64_t *, int, off64_t *, size_t,
                                    unsigned);
static int (*r_fallocate)(int, int, off_t, off_t);
static int (*r_posix_fallocate)(int, off_t, off_t);
static time_t (*r_time)(time_t *);

#define RESOLVE(name) r_##name = dlsym(RTLD_NEXT, #name)

static void init(void) {
    if (g_init) return;
    g_init = 1;
    RESOLVE(open); RESOLVE(open64); RESOLVE(openat); RESOLVE(openat64);
    RESOLVE(creat); RESOLVE(write); RESOLVE(pwrite); RESOLVE(pwrite64);
    RESOLVE(writev); RESOLVE(pwritev); RESOLVE(ftruncate);
    RESOLVE(ftruncate64); RESOLVE(truncate); RESOLVE(unlink);
    RESOLVE(unlinkat); RESOLVE(remove); RESOLVE(rename); RESOLVE(renameat);
    RESOLVE(renameat2); RESOLVE(link); RESOLVE(close); RESOLVE(fsync);
    RESOLVE(fdatasync); RESOLVE(dup); RESOLVE(dup2); RESOLVE(dup3);
    RESOLVE(mmap); RESOLVE(sendfile); RESOLVE(copy_file_range);
    RESOLVE(fallocate); RESOLVE(posix_fallocate); RESOLVE(time);
    const char *d = getenv("IOSIM_DIR");
    if (d && *d) { g_dir = strdup(d); g_dirlen = strlen(g_dir); }
    const char *s = getenv("IOSIM_STOP_AT");
    if (s && *s) g_stop_at = atol(s);
    s = getenv("IOSIM_TORN");
    if (s && *s) g_torn = atol(s);
    const char *l = getenv("IOSIM_LOG");
    if (l && *l && g_dir)
        g_logfd = r_open(l, O_WRONLY | O_CREAT | O_APPEND | O_CLOEXEC, 0644);
}

static int watched(const char *path) {
    if (!g_dir || !path) return 0;
    return strncmp(path, g_dir, g_dirlen) == 0 &&
           (path[g_dirlen] == '/' || path[g_dirlen] == 0);
}

/* absolute form of a path given relative to dirfd (AT_FDCWD or a directory) */
static const char *absolute(int dirfd, const char *path, char *buf) {
    if (!path) return NULL;
    if (path[0] == '/') return path;
    if (dirfd == AT_FDCWD) {
        if (!getcwd(buf, PATH_MAX)) return path;
    } else {
        char link[64];
        snprintf(link, sizeof link, "/proc/self/fd/%d", dirfd);
        ssize_t n = readlink(link, buf, PATH_MAX - 1);
        if (n <= 0) return path;
        buf[n] = 0;
    }
    size_t n = strlen(buf);
    if (n + strlen(path) + 2 >= PATH_MAX) return path;
    buf[n] = '/';
    strcpy(buf + n + 1, path);
    return buf;
}

struct rec {
    uint32_t magic, kind;
    int32_t fd, flags;
    int64_t offset, length, index;
    uint32_t plen, p2len;
};

static void put(const void *p, size_t n) {
    const char *c = p;
    while (n > 0) {
        ssize_t k = r_write(g_logfd, c, n);
        if (k <= 0) return;
        c += k; n -= (size_t)k;
    }
}

/* Count one operation; in stop-at mode die before it (torn: the caller
 * handles partial transfer and calls die()).  Returns 1 if this is the
 * operation to die at. */
static void die(void) { _exit(137); }

static int step(void) {
    g_count++;
    return g_stop_at > 0 && g_count == g_stop_at;
}

static void logrec(uint32_t kind, int fd, int flags, int64_t off,
                   int64_t len, const char *p1, const char *p2,
                   const void *payload, size_t paylen) {
    if (g_logfd < 0) return;
    struct rec r;
    memset(&r, 0, sizeof r);
    r.magic = 0x10511051u; r.kind = kind; r.fd = fd; r.flags = flags;
    r.offset = off; r.length = len; r.index = g_count;
    r.plen = p1 ? (uint32_t)strlen(p1) : 0;
    r.p2len = p2 ? (uint32_t)strlen(p2) : 0;
    put(&r, sizeof r);
    if (r.plen) put(p1, r.plen);
    if (r.p2len) put(p2, r.p2len);
    if (payload && paylen) put(payload, paylen);
}

void iosim_mark(const char *text) {
    init();
    pthread_mutex_lock(&g_mu);
    logrec(K_MARK, -1, 0, 0, (int64_t)strlen(text), NULL, NULL, text,
           strlen(text));
    pthread_mutex_unlock(&g_mu);
}

long iosim_count(void) { return g_count; }

static void track(int fd, const char *path) {
    if (fd < 0 || fd >= MAXFD) return;
    free(fdpath[fd]);
    fdpath[fd] = path ? strdup(path) : NULL;
}

static const char *tracked(int fd) {
    if (fd < 0 || fd >= MAXFD) return NULL;
    return fdpath[fd];
}

/* ---- open family ------------------------------------------------------ */

static int do_open(int which, int dirfd, const char *path, int flags,
                   mode_t mode) {
    init();
    char buf[PATH_MAX];
    const char *ap = absolute(dirfd, path, buf);
    int w = !g_busy && watched(ap);
    int mutating = w && (flags & (O_CREAT | O_TRUNC));
    if (mutating) {
        pthread_mutex_lock(&g_mu);
        if (step()) die();
        pthread_mutex_unlock(&g_mu);
    }
    int fd;
    switch (which) {
    case 0: fd = r_open(path, flags, mode); break;
    case 1: fd = r_open64(path, flags, mode); break;
    case 2: fd = r_openat(dirfd, path, flags, mode); break;
    default: fd = r_openat64(dirfd, path, flags, mode); break;
    }
    if (w) {
        pthread_mutex_lock(&g_mu);
        if (fd >= 0 && (flags & O_ACCMODE) != O_RDONLY) track(fd, ap);
        if (mutating)
            logrec(K_OPEN, fd, flags, 0, fd >= 0 ? 0 : -errno, ap, NULL,
                   NULL, 0);
        pthread_mutex_unlock(&g_mu);
    }
    return fd;
}

#define GETMODE \
    mode_t mode = 0; \
    if (flags & (O_CREAT | O_TMPFILE)) { \
        va_list ap_; va_start(ap_, flags); \
        mode = (mode_t)va_arg(ap_, int); va_end(ap_); }

int open(const char *path, int flags, ...) {
    GETMODE; return do_open(0, AT_FDCWD, path, flags, mode); }
int open64(const char *path, int flags, ...) {
    GETMODE; return do_open(1, AT_FDCWD, path, flags, mode); }
int openat(int dirfd, const char *path, int flags, ...) {
    GETMODE; return do_open(2, dirfd, path, flags, mode); }
int openat64(int dirfd, const char *path, int flags, ...) {
    GETMODE; return do_open(3, dirfd, path, flags, mode); }
int __open_2(const char *path, int flags) {
    return do_open(0, AT_FDCWD, path, flags, 0); }
int __open64_2(const char *path, int flags) {
    return do_open(1, AT_FDCWD, path, flags, 0); }
int __openat_2(int dirfd, const char *path, int flags) {
    return do_open(2, dirfd, path, flags, 0); }
int __openat64_2(int dirfd, const char *path, int flags) {
    return do_open(3, dirfd, path, flags, 0); }
int creat(const char *path, mode_t mode) {
    return do_open(0, AT_FDCWD, path, O_CREAT | O_WRONLY | O_TRUNC, mode); }
int creat64(const char *path, mode_t mode) {
    return do_open(1, AT_FDCWD, path, O_CREAT | O_WRONLY | O_TRUNC, mode); }

/* ---- writes ----------------------------------------------------------- */

static ssize_t do_write(int fd, const void *buf, size_t n, int64_t off,
                        int positional) {
    init();
    const char *p = g_busy ? NULL : tracked(fd);
    if (!p)
        return positional ? r_pwrite64(fd, buf, n, off) : r_write(fd, buf, n);
    pthread_mutex_lock(&g_mu);
    if (!positional) {
        int fl = fcntl(fd, F_GETFL);
        off = (fl >= 0 && (fl & O_APPEND)) ? lseek(fd, 0, SEEK_END)
                                           : lseek(fd, 0, SEEK_CUR);
    }
    if (step()) {
        if (g_torn > 0 && (size_t)g_torn < n) {
            if (positional) r_pwrite64(fd, buf, (size_t)g_torn, off);
            else r_write(fd, buf, (size_t)g_torn);
        }
        die();
    }
    ssize_t k = positional ? r_pwrite64(fd, buf, n, off) : r_write(fd, buf, n);
    logrec(K_WRITE, fd, positional, off, k, p, NULL, buf, k > 0 ? (size_t)k : 0);
    pthread_mutex_unlock(&g_mu);
    return k;
}

ssize_t write(int fd, const void *buf, size_t n) {
    return do_write(fd, buf, n, 0, 0); }
ssize_t pwrite(int fd, const void *buf, size_t n, off_t off) {
    return do_write(fd, buf, n, off, 1); }
ssize_t pwrite64(int fd, const void *buf, size_t n, off64_t off) {
    return do_write(fd, buf, n, off, 1); }

static ssize_t do_writev(int fd, const struct iovec *iov, int cnt,
                         int64_t off, int positional) {
    init();
    const char *p = g_busy ? NULL : tracked(fd);
    if (!p)
        return positional ? r_pwritev(fd, iov, cnt, off)
                          : r_writev(fd, iov, cnt);
    size_t total = 0;
    for (int i = 0; i < cnt; i++) total += iov[i].iov_len;
    char *flat = malloc(total ? total : 1);
    size_t at = 0;
    for (int i = 0; i < cnt; i++) {
        memcpy(flat + at, iov[i].iov_base, iov[i].iov_len);
        at += iov[i].iov_len;
    }
    ssize_t k = do_write(fd, flat, total, off, positional);
    free(flat);
    return k;
}

ssize_t writev(int fd, const struct iovec *iov, int cnt) {
    return do_writev(fd, iov, cnt, 0, 0); }
ssize_t pwritev(int fd, const struct iovec *iov, int cnt, off_t off) {
    return do_writev(fd, iov, cnt, off, 1); }
ssize_t pwritev64(int fd, const struct iovec *iov, int cnt, off64_t off) {
    return do_writev(fd, iov, cnt, off, 1); }

/* copies: performed for real, payload read back from the destination */
static void log_copy(int out_fd, const char *p, int64_t off, ssize_t k) {
    if (k <= 0 || g_logfd < 0) { logrec(K_COPY, out_fd, 0, off, k, p, NULL, NULL, 0); return; }
    char *tmp = malloc((size_t)k);
    ssize_t got = pread(out_fd, tmp, (size_t)k, off);
    if (got != k) {
        /* destination not readable (O_WRONLY): reopen by path */
        int rfd = r_open(p, O_RDONLY | O_CLOEXEC);
        if (rfd >= 0) { got = pread(rfd, tmp, (size_t)k, off); r_close(rfd); }
    }
    logrec(K_COPY, out_fd, 0, off, k, p, NULL, tmp, got == k ? (size_t)k : 0);
    free(tmp);
}

ssize_t sendfile(int out_fd, int in_fd, off_t *offset, size_t count) {
    init();
    const char *p = g_busy ? NULL : tracked(out_fd);
    if (!p) return r_sendfile(out_fd, in_fd, offset, count);
    pthread_mutex_lock(&g_mu);
    int64_t off = lseek(out_fd, 0, SEEK_CUR);
    if (step()) die();
    ssize_t k = r_sendfile(out_fd, in_fd, offset, count);
    log_copy(out_fd, p, off, k);
    pthread_mutex_unlock(&g_mu);
    return k;
}

ssize_t sendfile64(int out_fd, int in_fd, off64_t *offset, size_t count) {
    return sendfile(out_fd, in_fd, (off_t *)offset, count); }

ssize_t copy_file_range(int in_fd, off64_t *in_off, int out_fd,
                        off64_t *out_off, size_t len, unsigned flags) {
    init();
    const char *p = g_busy ? NULL : tracked(out_fd);
    if (!p) return r_copy_file_range(in_fd, in_off, out_fd, out_off, len, flags);
    pthread_mutex_lock(&g_mu);
    int64_t off = out_off ? *out_off : lseek(out_fd, 0, SEEK_CUR);
    if (step()) die();
    ssize_t k = r_copy_file_range(in_fd, in_off, out_fd, out_off, len, flags);
    log_copy(out_fd, p, off, k);
    pthread_mutex_unlock(&g_mu);
    return k;
}

/* ---- truncation ------------------------------------------------------- */

static int do_ftruncate(int fd, int64_t len) {
    init();
    const char *p = g_busy ? NULL : tracked(fd);
    if (!p) return r_ftruncate64(fd, len);
    pthread_mutex_lock(&g_mu);
    if (step()) die();
    int rc = r_ftruncate64(fd, len);
    logrec(K_TRUNC, fd, 0, 0, len, p, NULL, NULL, 0);
    pthread_mutex_unlock(&g_mu);
    return rc;
}

int ftruncate(int fd, off_t len) { return do_ftruncate(fd, len); }
int ftruncate64(int fd, off64_t len) { return do_ftruncate(fd, len); }

int truncate(const char *path, off_t len) {
    init();
    char buf[PATH_MAX];
    const char *ap = absolute(AT_FDCWD, path, buf);
    if (g_busy || !watched(ap)) return r_truncate(path, len);
    pthread_mutex_lock(&g_mu);
    if (step()) die();
    int rc = r_truncate(path, len);
    logrec(K_TRUNC, -1, 0, 0, len, ap, NULL, NULL, 0);
    pthread_mutex_unlock(&g_mu);
    return rc;
}
int truncate64(const char *path, off64_t len) { return truncate(path, len); }

int fallocate(int fd, int mode, off_t off, off_t len) {
    init();
    const char *p = g_busy ? NULL : tracked(fd);
    if (!p) return r_fallocate(fd, mode, off, len);
    pthread_mutex_lock(&g_mu);
    if (step()) die();
    int rc = r_fallocate(fd, mode, off, len);
    logrec(K_FALLOC, fd, mode, off, len, p, NULL, NULL, 0);
    pthread_mutex_unlock(&g_mu);
    return rc;
}
int fallocate64(int fd, int mode, off64_t off, off64_t len) {
    return fallocate(fd, mode, off, len); }
int posix_fallocate(int fd, off_t off, off_t len) {
    init();
    const char *p = g_busy ? NULL : tracked(fd);
    if (!p) return r_posix_fallocate(fd, off, len);
    pthread_mutex_lock(&g_mu);
    if (step()) die();
    int rc = r_posix_fallocate(fd, off, len);
    logrec(K_FALLOC, fd, 0, off, len, p, NULL, NULL, 0);
    pthread_mutex_unlock(&g_mu);
    return rc;
}
int posix_fallocate64(int fd, off64_t off, off64_t len) {
    return posix_fallocate(fd, off, len); }

/* ---- namespace -------------------------------------------------------- */

static int do_unlink(int which, int dirfd, const char *path, int flags) {
    init();
    char buf[PATH_MAX];
    const char *ap = absolute(dirfd, path, buf);
    int w = !g_busy && watched(ap);
    if (w) { pthread_mutex_lock(&g_mu); if (step()) die(); }
    int rc = which == 0 ? r_unlink(path)
           : which == 1 ? r_unlinkat(dirfd, path, flags) : r_remove(path);
    if (w) {
        logrec(K_UNLINK, -1, flags, 0, rc, ap, NULL, NULL, 0);
        pthread_mutex_unlock(&g_mu);
    }
    return rc;
}
int unlink(const char *path) { return do_unlink(0, AT_FDCWD, path, 0); }
int unlinkat(int dirfd, const char *path, int flags) {
    return do_unlink(1, dirfd, path, flags); }
int remove(const char *path) { return do_unlink(2, AT_FDCWD, path, 0); }

static int do_rename(int which, int od, const char *o, int nd, const char *n,
                     unsigned flags) {
    init();
    char b1[PATH_MAX], b2[PATH_MAX];
    const char *a1 = absolute(od, o, b1), *a2 = absolute(nd, n, b2);
    int w = !g_busy && (watched(a1) || watched(a2));
    if (w) { pthread_mutex_lock(&g_mu); if (step()) die(); }
    int rc = which == 0 ? r_rename(o, n)
           : which == 1 ? r_renameat(od, o, nd, n)
                        : r_renameat2(od, o, nd, n, flags);
    if (w) {
        logrec(K_RENAME, -1, (int)flags, 0, rc, a1, a2, NULL, 0);
        pthread_mutex_unlock(&g_mu);
    }
    return rc;
}
int rename(const char *o, const char *n) {
    return do_rename(0, AT_FDCWD, o, AT_FDCWD, n, 0); }
int renameat(int od, const char *o, int nd, const char *n) {
    return do_rename(1, od, o, nd, n, 0); }
int renameat2(int od, const char *o, int nd, const char *n, unsigned f) {
    return do_rename(2, od, o, nd, n, f); }

int link(const char *o, const char *n) {
    init();
    char b1[PATH_MAX], b2[PATH_MAX];
    const char *a1 = absolute(AT_FDCWD, o, b1), *a2 = absolute(AT_FDCWD, n, b2);
    int w = !g_busy && (watched(a1) || watched(a2));
    if (w) { pthread_mutex_lock(&g_mu); if (step()) die(); }
    int rc = r_link(o, n);
    if (w) {
        logrec(K_LINK, -1, 0, 0, rc, a1, a2, NULL, 0);
        pthread_mutex_unlock(&g_mu);
    }
    return rc;
}

/* ---- descriptors ------------------------------------------------------ */

int close(int fd) {
    init();
    const char *p = g_busy ? NULL : tracked(fd);
    if (p) {
        pthread_mutex_lock(&g_mu);
        logrec(K_CLOSE, fd, 0, 0, 0, p, NULL, NULL, 0);
        track(fd, NULL);
        pthread_mutex_unlock(&g_mu);
    }
    return r_close(fd);
}

int fsync(int fd) {
    init();
    const char *p = g_busy ? NULL : tracked(fd);
    if (p) {
        pthread_mutex_lock(&g_mu);
        logrec(K_FSYNC, fd, 0, 0, 0, p, NULL, NULL, 0);
        pthread_mutex_unlock(&g_mu);
    }
    return r_fsync(fd);
}
int fdatasync(int fd) {
    init();
    const char *p = g_busy ? NULL : tracked(fd);
    if (p) {
        pthread_mutex_lock(&g_mu);
        logrec(K_FSYNC, fd, 1, 0, 0, p, NULL, NULL, 0);
        pthread_mutex_unlock(&g_mu);
    }
    return r_fdatasync(fd);
}

int dup(int fd) {
    init();
    int n = r_dup(fd);
    const char *p = tracked(fd);
    if (p && n >= 0) { pthread_mutex_lock(&g_mu); track(n, p); pthread_mutex_unlock(&g_mu); }
    return n;
}
int dup2(int fd, int nfd) {
    init();
    int n = r_dup2(fd, nfd);
    if (n >= 0 && fd != nfd) {
        pthread_mutex_lock(&g_mu); track(n, tracked(fd)); pthread_mutex_unlock(&g_mu);
    }
    return n;
}
int dup3(int fd, int nfd, int flags) {
    init();
    int n = r_dup3(fd, nfd, flags);
    if (n >= 0) { pthread_mutex_lock(&g_mu); track(n, tracked(fd)); pthread_mutex_unlock(&g_mu); }
    return n;
}

void *mmap(void *addr, size_t len, int prot, int flags, int fd, off_t off) {
    init();
    const char *p = g_busy ? NULL : tracked(fd);
    if (p && (prot & PROT_WRITE) && (flags & MAP_SHARED)) {
        pthread_mutex_lock(&g_mu);
        logrec(K_MMAP, fd, prot, off, (int64_t)len, p, NULL, NULL, 0);
        pthread_mutex_unlock(&g_mu);
    }
    return r_mmap(addr, len, prot, flags, fd, off);
}
void *mmap64(void *addr, size_t len, int prot, int flags, int fd, off64_t off) {
    return mmap(addr, len, prot, flags, fd, off);
}

/* constant time(): HDF5 images become byte-reproducible across processes */
time_t time(time_t *t) {
    init();
    if (!g_dir) return r_time(t);
    time_t v = 1700000000;
    if (t) *t = v;
    return v;
}

CHECKS = {}
ENGINES = []
PENDING = {k: 'check under construction in this session; not claimed until it runs (DESIGN.md section 5)' for k in
           ['C06', 'C07', 'C08', 'C09', 'C13', 'C15']}

#!/usr/bin/env python3
"""Generate /verif/MANIFEST.json from one table (keeps it valid at all times)."""
import json
import os

HERE = os.path.dirname(os.path.dirname(os.path.abspath(__file__)))

E1 = 'E1 sampler-history engine (engines/e1_sampler.py, engines/e1_monitors.py)'

CHECKS = {
 'C01': dict(engine='e1', cat='exploration', ref='5 (C01)',
   technique='deterministic simulation with fault injection: seeded histories of run slices, stop/resume, kill-in-batch, timeouts and pool schedules against the real Sampler; membership invariant monitor after every add_bound/add_samples/run()/resume',
   text='Seeded search over world configurations and operation/fault histories; the statement is re-evaluated with bound.contains at every point the sampler can be observed. Evidence, not proof: configurations and histories are sampled.',
   note='Trusts numpy/h5py; bound.contains is pure; small problems (n_dim<=4, n_live<=80) stand in for production sizes.'),
 'C02': dict(engine='e1', cat='exploration', ref='5 (C02)',
   technique='deterministic simulation with fault injection: histories with toggles, kills, resumes; independent recomputation oracle using the harness\' own proposal tally',
   text='After every add_bound/add_samples/run()/resume/toggle the harness recomputes shell volumes, log_z, weights and Kish n_eff from the stored arrays and from its own count of proposals (rolled back on kills) and compares at 1e-9.',
   note='eta not compared; zero-evidence states skip weights/n_eff.'),
 'C03': dict(engine='e1', cat='exploration', ref='5 (C03)',
   technique='deterministic simulation with fault injection: evaluation-mode matrix x simulated pool schedules x histories with transfers/kills/resumes; recorder-based call-log oracle (bit equality)',
   text='Every posterior row is looked up in the recorder of the pure likelihood (exact argument bytes -> log_l, blob), must occur once and is re-evaluated; exceptions raised inside nautilus count as violations.',
   note='Likelihood library verified bit-identical in scalar and vectorised mode at start-up.'),
 'C05': dict(engine='e1', cat='fault_enumeration', ref='5 (C05)',
   technique='deterministic simulation with fault injection: every batch boundary of a configuration as a crash point (resume + one batch, also after an injected kill) against a reference; seeded multi-stop chains (stops, kills, timeouts, restart over a leftover file) to completion against the fault-free twin; real process kills inside checkpoint writes (libc interposer) followed by a real resume',
   text='Exhaustive over batch boundaries within each sampled configuration (one-step equivalence of the complete state incl. checkpoint content, generator, bound proposal caches and iteration counters; differences confirmed by running to completion), sampled over configurations, multi-stop chains and kill points inside checkpoint writes; bit-identity of final posterior, log_z, n_eff, n_like; no argument evaluated twice.',
   note='One BLAS thread, fixed PYTHONHASHSEED; kills land inside likelihood batches (inside checkpoint writes: C06).'),
 'C10': dict(engine='e1', cat='exploration', ref='5 (C10)',
   technique='deterministic simulation with fault injection: simulated clock, per-call costs, stalls, budgets from 0 upward, kills/resumes; call recorder as ground truth',
   text='Counter vs recorder after every batch, batch size, unit-cube support, no batch started at/after n_like_max or after the simulated deadline, early return only at the deadline, return value equals the success predicate.',
   note='Simulated time advances only through likelihood costs, stalls and clock jumps.'),
 'C11': dict(engine='e1', cat='exploration', ref='5 (C11)',
   technique='deterministic simulation: paired seeded runs differing in one invisible dimension (scalar/vectorised, simulated pool size/flavour/worker and completion order, verbosity, checkpointing, interleaved accessor calls, process history: fresh interpreter vs a worker that ran another sampler); digest equality',
   text='Digest equality of posterior with blobs, log_z, n_eff, n_like, generator state and per-batch call log between base and variant.',
   note='posterior(equal_weight=True) is not treated as a read-only accessor (documented to draw random numbers).'),
 'C12': dict(engine='e1', cat='exploration', ref='5 (C12)',
   technique='deterministic simulation with fault injection: histories with toggles at arbitrary boundaries, kills, resumes; snapshot-sequence oracle and toggle-there-and-back oracle',
   text='Monotone explored flag, frozen bound fingerprints, prefix-extension of every shell array, bit-for-bit restoration under toggling, discard view equals the rows evaluated after exploration ended, same views on the live and the resumed object.',
   note='Rows of killed batches are lost with the process.'),
}

NA = {
 'C04': 'expectation over seeds of a Monte-Carlo estimator; no schedule, fault, clock, storage or operation-order dimension for a simulator to control (DESIGN.md section 6)',
 'C14': 'pure function of stored weights, boost and generator draws; no schedule/fault/history dimension (DESIGN.md section 6)',
 'C16': 'pure function of a float input decided by boundary-value construction, not by schedules or faults (DESIGN.md section 6)',
}
PENDING = {}

ENGINES = [
 dict(name='e1', path='engines/e1_sampler.py', serves_properties=['C01', 'C02', 'C03', 'C05', 'C10', 'C11', 'C12'],
      kind_free_text='deterministic simulation of the real nautilus.Sampler: seeded world (SimClock, SimPool, recorder likelihood, kill injection, real HDF5 checkpoint on tmpfs), explicit operation histories, invariant monitors, fault-free twin'),
]


def build(extra_checks=None, extra_engines=None, pending=None):
    checks = dict(CHECKS)
    checks.update(extra_checks or {})
    engines = ENGINES + (extra_engines or [])
    out = dict(
        version=1,
        setup_cmd='cd /verif && ./setup.sh',
        hooks=dict(
            guard='NAUTILUS_VERIF',
            enable='no hooks in /repo: every seam is an object nautilus already accepts (pools, callbacks), the module attribute nautilus.sampler.time, a public method wrapped from outside, or libc (LD_PRELOAD shim for C06); the guard name is reserved and unused',
            baseline_off_cmd='cd /repo && /venv/bin/python -m pytest -ra -q -p no:cacheprovider --timeout=900 --continue-on-collection-errors',
            source_commits=[], add_only=True),
        engines=engines,
        checks=[],
        notes='All checks are ./check <id> (VERIF_TIER=quick|thorough, VERIF_SEED=<int>); exit 0 held, 1 VIOLATION, 2 harness error, 3 timeout. Genuine defects found and repaired are listed in known_findings.json (11 fix: commits in /repo, status fixed; one status known for C07). ./check selftest = determinism self-test; tools/run_mutants.sh = planted mutants; seeded/ = 50 independently seeded changes (3 rounds) with the checks that catch them. See DESIGN.md sections 16-19.',
        not_applicable=[dict(property_id=k, reason=v) for k, v in sorted(NA.items())] +
        [dict(property_id=k, reason=v) for k, v in sorted((pending if pending is not None else PENDING).items())],
    )
    for pid in sorted(checks):
        c = checks[pid]
        out['checks'].append(dict(
            property_id=pid,
            quick_cmd='VERIF_TIER=quick ./check {}'.format(pid),
            thorough_cmd='VERIF_TIER=thorough ./check {}'.format(pid),
            evidence_file='/verif/evidence/{}.json'.format(pid),
            replay_cmd_template='./check {} --replay {{path}}'.format(pid),
            engine=c['engine'],
            level_claimed=dict(category=c['cat'], text=c['text'], design_ref='DESIGN.md section ' + c['ref']),
            level_note=c['note'],
            technique=c['technique']))
    return out


if __name__ == '__main__':
    import importlib.util
    extra = os.path.join(HERE, 'tools', 'manifest_extra.py')
    kw = {}
    if os.path.exists(extra):
        spec = importlib.util.spec_from_file_location('manifest_extra', extra)
        m = importlib.util.module_from_spec(spec)
        spec.loader.exec_module(m)
        kw = dict(extra_checks=m.CHECKS, extra_engines=m.ENGINES, pending=m.PENDING)
    with open(os.path.join(HERE, 'MANIFEST.json'), 'w') as f:
        json.dump(build(**kw), f, indent=1)
    print('MANIFEST.json written')

#!/bin/sh
# Usage: tools/confirm_seeded.sh <dir with patch.diff and demo.py> <label>
# Confirms, on a scratch copy of /repo: demo exits 0 without the patch, the
# patch applies, demo exits 1 with it, the unedited test suite still passes.
set -u
D=$(realpath "$1"); L=$2
S=$(mktemp -d /dev/shm/conf-XXXXXX)
rsync -a --exclude .git /repo/ "$S/"
cd "$S"
PYTHONPATH="$S" timeout 900 /venv/bin/python "$D/demo.py" > "$S/demo0.log" 2>&1; r0=$?
if ! patch -p1 -s < "$D/patch.diff"; then echo "CONFIRM $L patch-failed"; rm -rf "$S"; exit 2; fi
PYTHONPATH="$S" timeout 900 /venv/bin/python "$D/demo.py" > "$S/demo1.log" 2>&1; r1=$?
PYTHONPATH="$S" timeout 3000 /venv/bin/python -m pytest -q -p no:cacheprovider --timeout=900 tests > "$S/tests.log" 2>&1
t=$(tail -1 "$S/tests.log")
echo "CONFIRM $L demo_without=$r0 demo_with=$r1 tests: $t :: $(tail -2 $S/demo1.log | tr '\n' ' ' | cut -c1-200)"
cd /; rm -rf "$S"

#!/bin/sh
# Run every planted mutant against the checks listed for it in INDEX.
cd /verif
while read name checks; do
  tools/try_mutant.sh selftest/mutants/$name.patch $checks
done < selftest/mutants/INDEX

#!/usr/bin/env python3
"""Generate selftest/mutants/*.patch from (file, old, new) triples against
/repo's working tree.  Each mutant breaks one property on purpose."""
import difflib
import os
import sys

REPO = '/repo'
OUT = os.path.join(os.path.dirname(os.path.dirname(os.path.abspath(__file__))), 'selftest', 'mutants')

M = [
 # name, checks, file, old, new
 ('c01_skip_next_bound', 'C01', 'nautilus/sampler.py',
  "                for bound in self.bounds[index:][1:]:\n",
  "                for bound in self.bounds[index:][2:]:\n"),
 ('c01_transfer_keeps_points', 'C01 C03', 'nautilus/sampler.py',
  "                self.points[shell] = self.points[shell][~in_bound]\n",
  "                self.points[shell] = self.points[shell][~in_bound | (np.arange(len(in_bound)) == 0)]\n                in_bound = in_bound & (np.arange(len(in_bound)) != 0)\n"),
 ('c02_proposals_not_counted_on_transfer', 'C02', 'nautilus/sampler.py',
  "        self.shell_n_sample[shell] += n_bound\n",
  "        self.shell_n_sample[shell] += len(points)\n"),
 ('c02_discard_keeps_exploration_proposals', 'C02 C12', 'nautilus/sampler.py',
  "            shell_n_sample -= self.shell_n_sample_exp[index]\n",
  "            shell_n_sample -= self.shell_n_sample_exp[index] // 2\n"),
 ('c03_blob_mask_on_transfer', 'C03', 'nautilus/sampler.py',
  "                    self.blobs[shell] = self.blobs[shell][~in_bound]\n",
  "                    self.blobs[shell] = self.blobs[shell][np.sort(~in_bound)[::-1]] if np.sum(in_bound) == 1 else self.blobs[shell][~in_bound]\n"),
 ('c03_no_copy_before_prior', 'C03 C01', 'nautilus/sampler.py',
  "            args = list(map(transform, np.copy(points)))\n",
  "            args = list(map(transform, points))\n"),
 ('c05_rng_not_in_update', 'C05', 'nautilus/sampler.py',
  "        rng_state = self.rng.bit_generator.state\n        group.attrs['rng_state'] = str(rng_state['state']['state'])\n        group.attrs['rng_inc'] = str(rng_state['state']['inc'])\n        group.attrs['rng_has_uint32'] = rng_state['has_uint32']\n        group.attrs['rng_uinteger'] = rng_state['uinteger']\n\n        fstream.close()\n        os.replace(filepath_tmp, filepath)\n",
  "        rng_state = self.rng.bit_generator.state\n        group.attrs['rng_state'] = str(rng_state['state']['state'])\n        group.attrs['rng_inc'] = str(rng_state['state']['inc'])\n\n        fstream.close()\n        os.replace(filepath_tmp, filepath)\n", 'last'),
 ('c05_bound_cache_not_updated', 'C05 C09', 'nautilus/bounds/nautilus.py',
  "        self.outer_bound.update(group['outer_bound'])\n",
  "        pass\n"),
 ('c05_n_update_iter_not_updated', 'C05', 'nautilus/sampler.py',
  "                    'shell_log_l', 'shell_log_v', 'n_update_iter',\n                    'n_like_iter']:\n            group.attrs[key] = getattr(self, key)\n\n        group['points_{}'.format(shell)].resize",
  "                    'shell_log_l', 'shell_log_v',\n                    'n_like_iter']:\n            group.attrs[key] = getattr(self, key)\n\n        group['points_{}'.format(shell)].resize"),
 ('c06_update_in_place_again', 'C06', 'nautilus/sampler.py',
  "        shutil.copyfile(filepath, filepath_tmp)\n        fstream = h5py.File(filepath_tmp, 'r+')\n",
  "        filepath_tmp = filepath\n        fstream = h5py.File(filepath_tmp, 'r+')\n"),
 ('c06_rename_before_close', 'C06', 'nautilus/sampler.py',
  "        group.attrs['rng_uinteger'] = rng_state['uinteger']\n\n        fstream.close()\n        os.replace(filepath_tmp, filepath)\n\n    def write_shell_update",
  "        group.attrs['rng_uinteger'] = rng_state['uinteger']\n\n        os.replace(filepath_tmp, filepath)\n        fstream.close()\n\n    def write_shell_update"),
 ('c07_union_no_cube_filter', 'C07', 'nautilus/bounds/union.py',
  "            if self.cube is not None:\n                points = points[self.cube.contains(points)]\n            self.rng.shuffle(points)\n",
  "            if self.cube is not None and len(self.bounds) < 3:\n                points = points[self.cube.contains(points)]\n            self.rng.shuffle(points)\n"),
 ('c08_no_multiplicity_thinning', 'C08', 'nautilus/bounds/union.py',
  "            p = 1 - 1.0 / n_bound\n",
  "            p = 1 - 1.0 / np.minimum(n_bound, 1)\n"),
 ('c08_pool_merge_without_outer', 'C08', 'nautilus/bounds/nautilus.py',
  "                    self.outer_bound.n_reject += bound.outer_bound.n_reject\n",
  "                    pass\n"),
 ('c09_scale_not_restored', 'C09', 'nautilus/neural.py',
  "        emulator.scale = np.array(group['scale'])\n",
  "        emulator.scale = np.ones_like(np.array(group['scale']))\n"),
 ('c09_union_cache_dropped', 'C09 C05', 'nautilus/bounds/union.py',
  "        bound.points = np.array(group['points'])\n\n        return bound\n",
  "        bound.points = np.array(group['points'])[:0]\n\n        return bound\n"),
 ('c10_counter_distinct_values', 'C10', 'nautilus/sampler.py',
  "        self.n_like += len(log_l)\n",
  "        self.n_like += len(np.unique(log_l))\n"),
 ('c10_guard_le', 'C10', 'nautilus/sampler.py',
  "        while ((self.n_like < n_like_max) and (time() - t_start < timeout) and\n",
  "        while ((self.n_like <= n_like_max) and (time() - t_start < timeout) and\n"),
 ('c11_accessor_samples', 'C11', 'nautilus/sampler.py',
  "        m = np.zeros((len(self.bounds), len(self.bounds)), dtype=int)\n",
  "        m = np.zeros((len(self.bounds), len(self.bounds)), dtype=int)\n        self.rng.random()\n"),
 ('c12_discard_start_off_by_one', 'C12', 'nautilus/sampler.py',
  "            self.shell_end_exp = np.array(\n                        [len(p) for p in self.points])\n",
  "            self.shell_end_exp = np.array(\n                        [max(len(p) - 1, 0) for p in self.points])\n"),
 ('c13_split_without_topup', 'C13', 'nautilus/bounds/union.py',
  "            n_move = self.n_points_min - (len(labels) - len(other))\n",
  "            n_move = self.n_points_min - (len(labels) - len(other)) - 1\n"),
 ('c12_resume_assumes_unit_cube_first', 'C12 C05 C02', 'nautilus/sampler.py',
  "                    if group_bound.attrs['type'] == 'UnitCube':\n",
  "                    if i == 0:\n"),
 ('c15_isf_direction', 'C15', 'nautilus/prior.py',
  "                phys_points[..., i] = dist.isf(1 - points[..., i])\n",
  "                phys_points[..., i] = dist.isf(points[..., i])\n"),
 ('c15_fixed_shape', 'C15', 'nautilus/prior.py',
  "                param_dict[key] = np.ones(phys_points[..., 0].shape) * dist\n",
  "                param_dict[key] = np.ones(len(phys_points)) * dist\n"),
]

os.makedirs(OUT, exist_ok=True)
for f in os.listdir(OUT):
    os.unlink(os.path.join(OUT, f))
index = []
for m in M:
    name, checks, path, old, new = m[:5]
    src = open(os.path.join(REPO, path)).read()
    if src.count(old) < 1:
        print('NOT FOUND', name); continue
    if len(m) > 5 and m[5] == 'last':
        k = src.rindex(old); dst = src[:k] + new + src[k + len(old):]
    else:
        if src.count(old) != 1:
            print('AMBIGUOUS', name, src.count(old)); continue
        dst = src.replace(old, new)
    diff = ''.join(difflib.unified_diff(src.splitlines(True), dst.splitlines(True), 'a/' + path, 'b/' + path))
    open(os.path.join(OUT, name + '.patch'), 'w').write(diff)
    index.append((name, checks))
open(os.path.join(OUT, 'INDEX'), 'w').write(''.join('{} {}\n'.format(n, c) for n, c in index))
print(len(index), 'mutants written')

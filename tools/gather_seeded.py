#!/usr/bin/env python3
"""Collect confirmed seeded changes into /verif/seeded/<label>/ with meta.json,
from /tmp/confirm.log and the MUTANT lines of the evaluation logs given."""
import json, os, re, shutil, sys
confirm = {}
for line in open('/tmp/confirm.log'):
    m = re.match(r'CONFIRM (\S+) demo_without=(\d+) demo_with=(\d+) tests: (.*?) ::', line)
    if m:
        confirm[m.group(1)] = (int(m.group(2)), int(m.group(3)), m.group(4))
results = {}
for log in sys.argv[1:]:
    for line in open(log):
        m = re.match(r'MUTANT (\S+) \S+ check=(\S+) rc=(\d+) (\d+)s :: (.*)', line)
        if m:
            results.setdefault(m.group(1), {})[m.group(2)] = (int(m.group(3)), m.group(5).strip())
for label in sorted(confirm):
    r0, r1, tests = confirm[label]
    ok = r0 == 0 and r1 == 1 and tests.startswith('144 passed')
    pid, v = label.split('-')
    src = '/tmp/wt/{}/_seeded/{}'.format(pid, v)
    if not ok or not os.path.isdir(src):
        print('NOT KEPT', label, confirm[label]); continue
    dst = os.path.join('/verif/seeded', label)
    os.makedirs(dst, exist_ok=True)
    for f in ('patch.diff', 'demo.py', 'notes.md'):
        shutil.copyfile(os.path.join(src, f), os.path.join(dst, f))
    caught, missed = [], []
    for chk, (rc, txt) in sorted(results.get(label, {}).items()):
        m = re.search(r'class=(\S+) (.*)', txt)
        if rc == 1:
            caught.append(dict(check=chk, tier='quick', seed=0, violation_class=m.group(1) if m else None,
                               message=(m.group(2) if m else txt)[:240]))
        else:
            missed.append(dict(check=chk, exit=rc))
    meta = dict(label=label, property=pid,
                origin='fresh sub-agent given only the property record and a scratch worktree of /repo (nothing from /verif)',
                needs_to_manifest=open(os.path.join(src, 'notes.md')).read().strip()[:1800],
                confirmed_by_me=dict(how='tools/confirm_seeded.sh on a scratch copy of /repo under /dev/shm',
                                     demo_exit_without_patch=r0, demo_exit_with_patch=r1, test_suite_with_patch=tests),
                checks_that_catch_it=caught, checks_run_that_did_not=missed)
    json.dump(meta, open(os.path.join(dst, 'meta.json'), 'w'), indent=1)
    print('kept', label, [c['check'] for c in caught], [m['check'] for m in missed])

#!/bin/sh
# Run the thorough tier of every check once; one line per check.
S=${1:-0}
for c in ${CHECKS:-C15 C13 C09 C07 C08 C06 C01 C02 C03 C10 C11 C12 C05}; do
  t0=$(date +%s)
  VERIF_SEED=$S VERIF_TIER=thorough timeout 10800 ./check $c > thorough_$c.log 2>&1
  rc=$?
  echo "THOROUGH seed=$S check=$c rc=$rc $(( $(date +%s) - t0 ))s $(grep -m1 -A1 -E 'VIOLATION|HARNESS' thorough_$c.log | tr '\n' ' ' | cut -c1-250) :: $(grep -E "^$c thorough" thorough_$c.log | cut -c1-300)"
done

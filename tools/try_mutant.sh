#!/bin/sh
# Usage: tools/try_mutant.sh <patch.diff> <check id> [more check ids...]
# Applies the patch to a scratch copy of /repo (never to /repo itself), runs
# the given quick checks against the copy (VERIF_REPO) with evidence and
# replays redirected to scratch, prints one line per check, removes the copy.
set -u
PATCH=$(realpath "$1"); shift
S=$(mktemp -d /dev/shm/mut-XXXXXX)
mkdir -p "$S/repo" "$S/ev" "$S/rp"
rsync -a --exclude .git /repo/ "$S/repo/"
if ! (cd "$S/repo" && patch -p1 -s < "$PATCH"); then echo "PATCH-FAILED $PATCH"; rm -rf "$S"; exit 2; fi
for c in "$@"; do
  t0=$(date +%s)
  VERIF_REPO="$S/repo" VERIF_EVIDENCE_DIR="$S/ev" VERIF_REPLAY_DIR="$S/rp" VERIF_TIER=${VERIF_TIER:-quick} timeout 1800 /verif/check "$c" > "$S/$c.log" 2>&1
  rc=$?
  t1=$(date +%s)
  echo "MUTANT $(basename $(dirname $PATCH))/$(basename $PATCH) check=$c rc=$rc $((t1-t0))s :: $(grep -m1 -A1 VIOLATION "$S/$c.log" | tr '\n' ' ' | cut -c1-300)"
  if [ "$rc" != "1" ]; then tail -4 "$S/$c.log" | cut -c1-400; fi
done
rm -rf "$S"

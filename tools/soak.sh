#!/bin/sh
# Run every quick check for a range of seeds; report anything that is not exit 0.
# usage: tools/soak.sh <first seed> <last seed> [tier]
T=${3:-quick}
for s in $(seq $1 $2); do
  for c in C01 C02 C03 C05 C06 C07 C08 C09 C10 C11 C12 C13 C15; do
    t0=$(date +%s)
    VERIF_SEED=$s VERIF_TIER=$T timeout 7200 ./check $c > soak_$c_$s.log 2>&1
    rc=$?
    echo "SOAK seed=$s check=$c rc=$rc $(( $(date +%s) - t0 ))s $(grep -m1 -A1 -E 'VIOLATION|HARNESS' soak_$c_$s.log | tr '\n' ' ' | cut -c1-250)"
  done
done

#!/usr/bin/env python3
"""Copy a confirmed seeded change into /verif/seeded/<label>/ with meta.json.
usage: keep_seeded.py <src dir> <label> <property> <confirm line> [caught-by ...]"""
import json, os, shutil, sys
src, label, prop, confirm = sys.argv[1:5]
caught = sys.argv[5:]
dst = os.path.join('/verif/seeded', label)
os.makedirs(dst, exist_ok=True)
for f in ('patch.diff', 'demo.py', 'notes.md'):
    shutil.copyfile(os.path.join(src, f), os.path.join(dst, f))
notes = open(os.path.join(src, 'notes.md')).read()
meta = dict(label=label, property=prop, origin='independent sub-agent given only the property text and a scratch worktree',
            needs_to_manifest=notes.strip()[:1500],
            confirmed_by_me=confirm,
            checks_that_catch_it=caught)
json.dump(meta, open(os.path.join(dst, 'meta.json'), 'w'), indent=1)
print('kept', dst)

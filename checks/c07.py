"""C07 - bounds are sound: samples lie inside, construction points are
enclosed, neural/nautilus bounds stay inside their outer bound."""
from checks import e3_driver


class SpecC07(e3_driver.Spec):
    prop = 'C07'
    props = ('C07', )
    classes = ['UnitCube', 'Ellipsoid', 'Mixture', 'Mixture', 'Union',
               'Union', 'Union', 'NeuralBound', 'NautilusBound',
               'NautilusBound']
    profile = dict(max_len=7, w_split=3, w_trim=2, w_sample=4, w_restart=1,
                   w_update=0, w_pool=2, p_big=0.03)
    chunk = 10
    runs = dict(quick=1000, thorough=16000)
    rule = ('one case = a bound of a seeded class built from a seeded point '
            'cloud (clustered, elongated, curved, hugging faces and corners, '
            'wrapped around a periodic face, filling the cube; d 2-8; '
            'enlargement 1.01-2) and a seeded history over split / trim / '
            'serial sampling / sampling through a simulated pool (1-8 '
            'workers, seeded task order) / storage round trip.  After every '
            'operation: every sampled point satisfies contains() of the same '
            'bound and lies in [0,1)^d for unit-restricted bounds; every '
            'construction point (not trimmed away) is contained; '
            'NeuralBound/NautilusBound.contains implies the outer bound '
            'contains on probe points.  The point-cloud dimension is only '
            'sampled.  Non-trivial: >=2 operations with >=1 sample.  '
            'Distinct: distinct (class, options, operation sequence).')
    assumptions = ['enlargement factors > 1 only, as the statement says']

    def nontrivial(self, case, r):
        return len(case['ops']) >= 2 and r['stats']['samples'] > 0


def main(argv=None):
    return e3_driver.main(SpecC07(), argv)

"""C09 - writing and reading back any bound preserves its behaviour."""
from checks import e3_driver


class SpecC09(e3_driver.Spec):
    prop = 'C09'
    props = ('C09', )
    classes = ['UnitCube', 'Ellipsoid', 'Mixture', 'Union', 'Union', 'Union',
               'NeuralBound', 'NautilusBound', 'NautilusBound', 'PhaseShift']
    profile = dict(max_len=7, w_split=2, w_trim=1, w_sample=3, w_restart=3,
                   w_update=2, w_pool=1)
    # (the numerically degenerate clouds are C07's subject only)
    clouds = ['blob', 'two', 'three', 'elongated', 'curved', 'face', 'corner',
              'wrapped', 'fill', 'many', 'triangles']
    chunk = 8
    runs = dict(quick=960, thorough=16000)
    rule = ('one case = a bound of a seeded class and construction (UnitCube, '
            'Ellipsoid, cube-ellipsoid mixture, Union with either member '
            'class and unit-restricted or not, NeuralBound and NautilusBound '
            'with 0-2 networks incl. non-default MLP kwargs and periodic '
            'shift, PhaseShift; d 2-8) driven through a seeded history of '
            'split / trim / sample / pool sampling in which storage round '
            'trips (write -> read; write earlier, update now -> read) are '
            'ordinary operations at arbitrary positions.  Reference model = '
            'the original object kept in memory: after each round trip '
            'contains() must agree on uniform, construction and near-surface '
            'probe points, log_v must be bit-equal, and with a cloned '
            'generator state the copy then samples in lock-step with the '
            'original (bit-equal streams, across cache refills); update+read '
            'must equal write+read.  Non-trivial: a round trip happened '
            'after at least one state-changing operation, or lock-step '
            'sampling followed it.  Distinct: distinct (class, options, '
            'operation sequence).')
    assumptions = ['split/trim are not applied to a read-back union: the '
                   'property promises contains/volume/sample stream']

    def nontrivial(self, case, r):
        s = r['stats']
        return s['restarts'] > 0 and (len(case['ops']) >= 2 or
                                      s['lockstep_samples'] > 0)

    def finish_ops(self, rng, spec, ops):
        if not any(o[0] in ('restart', 'update_restart') for o in ops):
            ops = ops + [['restart']]
        if spec['cls'] in ('UnitCube', 'Ellipsoid', 'Mixture', 'Union',
                           'NautilusBound') and rng.random() < 0.7:
            ops = ops + [['sample', rng.choice([5, 100, 1200])],
                         ['sample', rng.choice([1, 1000])]]
        return ops


def main(argv=None):
    return e3_driver.main(SpecC09(), argv)

"""Determinism self-test: one seed is one exactly repeatable execution.

Every engine executes the same run indices (a) with 16 workers, (b) with 4
workers, (c) in a fresh interpreter under a different PYTHONHASHSEED; the
event-log / result digests must agree.  Also: nautilus never reaches the real
clock, and the E2 operation log (with payload hashes) is identical between two
recorded processes.

    ./check selftest            (exit 0 = deterministic)
"""

import argparse
import hashlib
import json
import os
import subprocess
import sys
import tempfile
import shutil
import time

from simkit import env, report, orchestrator, rng as R, digest


def e1_task(i):
    from engines import e1_sampler as e1
    from engines import e1_monitors as mon
    mon.install_taps()
    rng = R.run_rng('selftest-e1', 'quick', 0, i)
    hard = i % 2 == 1
    profile = dict(n_live=[20, 30], n_batch=[5, 10, 20], p_pool_l=0.5,
                   p_pool_s=0.3)
    if hard:
        # every fault kind, incl. exception-kills inside checkpoint writes
        # and restarts over a leftover file; all pool flavours
        profile.update(ckpt=True, fault_kinds=[
            'stop_resume', 'kill', 'kill_in_write', 'slice', 'timeout',
            'observe', 'toggle'])
    cfg = e1.draw_cfg(rng, profile)
    cfg['cap_rows'] = 1500
    twin = e1.run_twin(cfg, wall=60)
    if twin['status'] != 'ok':
        return ('e1', i, 'twin-' + twin['status'], None)
    ops = e1.draw_history(rng, cfg, twin['timeline'], profile,
                          twin.get('probes'))
    if hard and rng.random() < 0.5:
        ops = [['run', 30], ['restart_fresh']] + ops
    mons = [mon.MonC01(), mon.MonC03(), mon.MonC10(), mon.MonC12()]
    if not hard:
        mons.append(mon.MonC02())
    res = e1.execute(dict(cfg=cfg, ops=ops), mons, wall=120)
    return ('e1', i, res['status'], [twin['events_digest'],
                                     res.get('events_digest'),
                                     res.get('result'), res.get('sig_seq'),
                                     res.get('faults')])


def e3_task(i):
    from engines import e3_bounds as e3
    rng = R.run_rng('selftest-e3', 'quick', 0, i)
    spec = e3.draw_bound_spec(rng)
    ops = e3.draw_ops(rng, spec, dict(max_len=6))
    case = dict(bound=spec, ops=ops, qseed=rng.randrange(2**31))
    r = e3.execute(case)
    st = dict(r['stats'])
    st.pop('stat', None)
    return ('e3', i, r['status'], digest.digest([st, r.get('violation')]))


def e4_task(i):
    from engines import e4_prior as e4
    out = []
    for j in range(50):
        rng = R.run_rng('selftest-e4', 'quick', 0, i * 50 + j)
        ops = e4.draw_history(rng)
        r = e4.execute(dict(ops=ops, qseed=rng.randrange(2**31)))
        out.append([r['status'], r['stats'], r.get('violation')])
    return ('e4', i, 'ok', digest.digest(out))


def poisoned_clock_task(i):
    """nautilus frames must never reach the real clock."""
    import time as _time
    from engines import e1_sampler as e1
    real = _time.time
    hits = []

    def poisoned():
        f = sys._getframe(1)
        if 'nautilus' in f.f_code.co_filename and '/verif/' not in \
                f.f_code.co_filename:
            hits.append((f.f_code.co_filename, f.f_lineno))
        return real()
    _time.time = poisoned
    try:
        rng = R.run_rng('selftest-clock', 'quick', 0, i)
        cfg = e1.draw_cfg(rng, dict(n_live=[20], n_batch=[10]))
        cfg['cap_rows'] = 600
        e1.execute(dict(cfg=cfg, ops=[['run_timeout', 5.0], ['finish']]),
                   (), wall=60)
    finally:
        _time.time = real
    return ('clock', i, 'ok', hits)


TASKS = dict(e1=(e1_task, 40), e3=(e3_task, 160), e4=(e4_task, 16))


def run_all(workers):
    out = {}
    for name, (fn, n) in TASKS.items():
        res = orchestrator.run_parallel(fn, range(n), workers=workers,
                                        hard_wall=600)
        out[name] = [[r[1], r[2], r[3]] for r in res]
    return out


def e2_oplog(seed_index):
    from checks import c06
    from engines import e2_crash as e2
    e2.ensure_shim()
    root = tempfile.mkdtemp(prefix='verif-self-', dir=env.scratch_root())
    try:
        rng = R.run_rng('selftest-e2', 'quick', 0, seed_index)
        cfg = c06.draw_cfg(rng)
        cfg['cap_rows'] = 500
        sigs = []
        for rep in range(2):
            info = c06.record_run(('quick', 0, rep, root, cfg))
            if info['status'] != 'ok':
                return None, info.get('error')
            recs = e2.parse_log(info['log'])
            sigs.append(digest.digest([
                [r['kind'], os.path.basename(r['p1']), r['off'], r['len'],
                 hashlib.sha1(r['payload']).hexdigest()] for r in recs]))
        return sigs, None
    finally:
        shutil.rmtree(root, ignore_errors=True)


def main(argv=None):
    ap = argparse.ArgumentParser()
    ap.add_argument('--emit', action='store_true')
    ap.add_argument('--workers', type=int, default=16)
    args = ap.parse_args(argv)
    import nautilus  # noqa: F401
    import sklearn.mixture  # noqa: F401
    import sklearn.neural_network  # noqa: F401
    import h5py  # noqa: F401
    if args.emit:
        sys.stdout.write('SELFTEST-JSON ' + json.dumps(
            run_all(args.workers)) + '\n')
        return 0
    t0 = time.time()
    a = run_all(16)
    b = run_all(4)
    e = dict(os.environ)
    e['PYTHONHASHSEED'] = '12345'
    e['VERIF_REEXEC'] = '1'
    p = subprocess.run([sys.executable, os.path.join(env.VERIF_ROOT, 'check'),
                        'selftest', '--emit', '--workers', '8'], env=e,
                       stdout=subprocess.PIPE, stderr=subprocess.STDOUT,
                       timeout=1800)
    c = None
    for line in p.stdout.decode(errors='replace').splitlines():
        if line.startswith('SELFTEST-JSON '):
            c = json.loads(line[len('SELFTEST-JSON '):])
    ok = True
    if c is None:
        report.say('fresh interpreter produced no result:\n' +
                   p.stdout.decode(errors='replace')[-1500:])
        return env.EXIT_HARNESS
    for name in TASKS:
        for x, y, z in zip(a[name], b[name], c[name]):
            if not (x == y == z):
                ok = False
                report.say('NONDETERMINISM in {} run {}: {} / {} / {}'.format(
                    name, x[0], x, y, z))
        st = {}
        for x in a[name]:
            st[x[1]] = st.get(x[1], 0) + 1
        report.say('{}: {} runs x 3 executions (16 workers, 4 workers, fresh '
                   'interpreter with another PYTHONHASHSEED) agree: {}; '
                   'statuses {}'.format(name, len(a[name]), ok, st))
    hits = orchestrator.run_parallel(poisoned_clock_task, range(4),
                                     workers=4, hard_wall=300)
    bad = [h for r in hits for h in r[3]]
    report.say('real clock reached from nautilus frames: {}'.format(
        bad or 'never'))
    if bad:
        ok = False
    sigs, err = e2_oplog(0)
    if sigs is None:
        report.say('e2: recording failed: {}'.format(err))
        ok = False
    else:
        report.say('e2: operation log incl. payload hashes identical between '
                   'two recorded processes: {}'.format(sigs[0] == sigs[1]))
        ok = ok and sigs[0] == sigs[1]
    report.say('selftest {} in {:.0f} s'.format(
        'PASSED' if ok else 'FAILED', time.time() - t0))
    return env.EXIT_OK if ok else env.EXIT_HARNESS

"""C11 - same seed, same result, however the likelihood is evaluated or
observed.

Paired simulated runs: a base history and a variant that differs in exactly
one thing that should be invisible; both use the same slicing."""

import argparse
import copy
import json
import os
import time

import numpy as np

from simkit import env, report, orchestrator, rng as R, digest, workload
from engines import e1_sampler as e1
from engines import e1_monitors as mon

PROP = 'C11'
RUN_WALL = 30
HARD_WALL = 600
KINDS = ['identical', 'vectorized', 'vectorized', 'vectorized', 'pool_l',
         'pool_l', 'verbose', 'ckpt', 'observe', 'observe', 'pool_s_order',
         'process_history', 'process_history']
PROFILE = dict(p_pool_l=0.3, p_pool_s=0.15, p_many_ellipsoids=0.1,
               prior_choices=['fn', 'fn', 'fn_inplace', 'fn_inplace', 'obj',
                              'obj_array', 'fn_dict'],
               fault_kinds=['slice', 'slice', 'stop_resume', 'timeout'])


def make_pair(rng, cfg, timeline):
    """Return (kind, base case, variant case)."""
    kinds = list(KINDS)
    if cfg['lik']['vectorized']:
        kinds = [k for k in kinds if k != 'pool_l']
    if cfg['pool_s'] is None:
        kinds = [k for k in kinds if k != 'pool_s_order']
    kind = rng.choice(kinds)
    B = len(timeline)
    base_cfg = copy.deepcopy(cfg)
    var_cfg = copy.deepcopy(cfg)
    if kind == 'observe':
        # one-batch slices, observations interleaved in the variant only
        n = min(B, rng.choice([10, 20, 40, B]))
        start = rng.randrange(0, max(1, B - n + 1))
        base_ops, var_ops = [], []
        if start:
            base_ops.append(['run', start])
            var_ops.append(['run', start])
        for _ in range(n):
            base_ops.append(['run', 1])
            var_ops.append(['run', 1])
            if rng.random() < 0.7:
                var_ops.append(['observe', rng.sample(
                    e1.ACCESSORS, rng.randrange(1, len(e1.ACCESSORS) + 1))])
        base_ops.append(['finish'])
        var_ops.append(['finish'])
        return kind, dict(cfg=base_cfg, ops=base_ops), dict(
            cfg=var_cfg, ops=var_ops)
    ops = e1.draw_history(rng, cfg, timeline, PROFILE)
    if not cfg['ckpt']:
        ops = [o for o in ops if o[0] not in ('stop_resume', 'kill')]
    base_ops = copy.deepcopy(ops)
    var_ops = copy.deepcopy(ops)
    if kind == 'identical':
        pass
    elif kind == 'process_history':
        # base: a fresh interpreter; variant: this long-lived worker, after
        # an unrelated sampler with other settings has run in it.  Nothing a
        # sampler does may leak into the next one through process-global
        # state.
        pass
    elif kind == 'vectorized':
        if cfg['lik']['prior'] in ('fn', 'fn_inplace') and \
                rng.random() < 0.6:
            # a prior function that modifies its argument in place is legal
            # (C03) and must be just as invisible in both modes
            base_cfg['lik']['prior'] = var_cfg['lik']['prior'] = 'fn_inplace'
        var_cfg['lik']['vectorized'] = not cfg['lik']['vectorized']
        if var_cfg['lik']['vectorized']:
            var_cfg['pool_l'] = None
        base_cfg['cost'] = var_cfg['cost'] = 0.0
    elif kind == 'pool_l':
        choices = [None] + [dict(flavour=f, size=s) for f in
                            ('mp', 'executor', 'mpi', 'dask')
                            for s in (1, 2, 3, 8)]
        var_cfg['pool_l'] = rng.choice(
            [c for c in choices if c != cfg['pool_l']])
        var_cfg['pool_seed'] = rng.randrange(2**31)
    elif kind == 'pool_s_order':
        # same pool size (the number of jobs is part of the algorithm),
        # different flavour and task execution order
        var_cfg['pool_s'] = dict(
            flavour=rng.choice(['mp', 'executor', 'mpi', 'dask']),
            size=cfg['pool_s']['size'])
        var_cfg['pool_seed'] = rng.randrange(2**31)
    elif kind == 'verbose':
        var_ops = [['verbose', True]] + [o for o in var_ops
                                          if o[0] != 'verbose']
        base_ops = [o for o in base_ops if o[0] != 'verbose']
    elif kind == 'ckpt':
        base_ops = [o for o in base_ops if o[0] not in ('stop_resume',
                                                         'kill')]
        var_ops = copy.deepcopy(base_ops)
        var_cfg['ckpt'] = not cfg['ckpt']
    return kind, dict(cfg=base_cfg, ops=base_ops), dict(cfg=var_cfg,
                                                        ops=var_ops)


def call_log_digest():
    # per batch, as a sorted multiset: with a pool the execution order inside
    # a batch is the scheduler's choice and legitimately differs
    from simkit.workload import REC
    out, pos = [], 0
    for b in sorted(REC.batch_rows):
        n = REC.batch_rows[b]
        out.append(sorted(k for k, _ in REC.calls[pos:pos + n]))
        pos += n
    return digest.digest(out)


def polluter_case(seed):
    """A short, unrelated sampler run with settings the paired runs do not
    use (other network kwargs, dimension, blobs, batch size)."""
    import random
    rng = random.Random(seed)
    cfg = e1.draw_cfg(rng, dict(n_networks=[1, 2], n_live=[30, 40],
                                n_batch=[10, 20], p_frequent_bounds=0.0,
                                p_long_sampling=0.0))
    cfg['sampler']['nn_kwargs'] = dict(
        hidden_layer_sizes=[5], max_iter=25, activation='tanh', alpha=0.01,
        learning_rate_init=0.02, n_iter_no_change=5, tol=1e-3)
    cfg['ckpt'] = False
    cfg['pool_l'] = cfg['pool_s'] = None
    cfg['cap_rows'] = 700
    return dict(cfg=cfg, ops=[['finish']], tag='polluter')


def exec_case_fresh(case):
    """Execute a case in a fresh interpreter; return (result parts, call
    log digest) or None."""
    import subprocess
    import sys
    import tempfile
    d = tempfile.mkdtemp(prefix='verif-c11-', dir=env.scratch_root())
    try:
        path = os.path.join(d, 'case.json')
        with open(path, 'w') as f:
            json.dump(case, f)
        e = dict(os.environ)
        e['VERIF_REEXEC'] = '1'
        p = subprocess.run([sys.executable, os.path.join(
            env.VERIF_ROOT, 'check'), 'C11', '--exec-case', path], env=e,
            stdout=subprocess.PIPE, stderr=subprocess.DEVNULL, timeout=600)
        for line in p.stdout.decode(errors='replace').splitlines():
            if line.startswith('EXEC-CASE '):
                return json.loads(line[len('EXEC-CASE '):])
        return None
    finally:
        import shutil
        shutil.rmtree(d, ignore_errors=True)


def run_pair_cases(kind, base, var):
    mon.install_taps()
    if kind == 'process_history':
        fresh = exec_case_fresh(dict(base, tag='base'))
        if fresh is None:
            return dict(kind=kind, status='harness',
                        error='fresh interpreter produced no result')
        e1.execute(polluter_case(var['cfg']['pool_seed']), (),
                   wall=RUN_WALL * 2)
        rv = e1.execute(dict(var, tag='var'), (), wall=RUN_WALL * 3)
        cv = call_log_digest()
        out = dict(kind=kind)
        for k in ('faults', 'pool', 'probes', 'sig_seq', 'sim_seconds'):
            out[k] = rv.get(k)
        if fresh['status'] != 'ok' or rv['status'] in ('timeout',
                                                       'harness'):
            out['status'] = 'discarded' if rv['status'] != 'harness' \
                else 'harness'
            out['error'] = rv.get('error')
            return out
        if rv['status'] == 'sut_exception':
            out.update(status='violation', violation=dict(
                prop=PROP, cls='exception',
                msg='completed in a fresh interpreter, raised {} in a '
                    'process that had run another sampler before'.format(
                        rv.get('error')), detail={}))
            return out
        diff = [k for k in fresh['parts']
                if fresh['parts'][k] != rv['result_parts'].get(k)]
        if fresh['call_log'] != cv:
            diff.append('call_log')
        if diff:
            out.update(status='violation', violation=dict(
                prop=PROP, cls='result_differs:process_history',
                msg='the same seeded run gives different {} in a fresh '
                    'interpreter and in a process in which an unrelated '
                    'sampler (other settings) had run before'.format(diff),
                detail=dict(differs=diff)))
            return out
        out['status'] = 'ok'
        return out
    rb = e1.execute(dict(base, tag='base'), (), wall=RUN_WALL * 3)
    cb = call_log_digest()
    rv = e1.execute(dict(var, tag='var'), (), wall=RUN_WALL * 3)
    cv = call_log_digest()
    out = dict(kind=kind)
    for k in ('faults', 'pool', 'probes', 'sig_seq', 'sim_seconds'):
        out[k] = rv.get(k)
    for r in (rb, rv):
        if r['status'] == 'harness':
            out.update(status='harness', error=r.get('error'))
            return out
        if r['status'] == 'timeout':
            out['status'] = 'timeout'
            return out
    if rb['status'] == 'sut_exception':
        out['status'] = 'discarded'
        out['why'] = rb.get('error')
        return out
    if rv['status'] == 'sut_exception':
        out.update(status='violation', violation=dict(
            prop=PROP, cls='exception',
            msg='the base run completed, the variant ({}) raised {}'.format(
                kind, rv.get('error')), detail=dict(where=rv.get('where'))),
            traceback=rv.get('traceback'))
        return out
    diff = [k for k in rb['result_parts']
            if rb['result_parts'][k] != rv['result_parts'].get(k)]
    if cb != cv:
        diff.append('call_log')
    if diff:
        out.update(status='violation', violation=dict(
            prop=PROP, cls='result_differs:' + kind,
            msg='variant "{}" changes {}'.format(kind, diff),
            detail=dict(differs=diff)))
        return out
    out['status'] = 'ok'
    return out


def run_pair(args):
    tier, seed, i = args
    rng = R.run_rng(PROP, tier, seed, i)
    cfg = e1.draw_cfg(rng, PROFILE)
    out = dict(i=i, cfg=cfg)
    twin = e1.run_twin(cfg, wall=RUN_WALL)
    if twin['status'] != 'ok' or not twin.get('last_ret') or twin.get(
            'hit_cap'):
        out.update(status='discarded', why=twin['status'], kind=None)
        return out
    kind, base, var = make_pair(rng, cfg, twin['timeline'])
    out.update(base=base, var=var)
    out.update(run_pair_cases(kind, base, var))
    return out


def replay_pair(case):
    return run_pair_cases(case['kind'], case['base'], case['var'])


def prior_selfcheck():
    """Prior objects must map a row and a matrix identically (needed for the
    scalar/vectorised pairing)."""
    import random
    rng = random.Random(7)
    for _ in range(20):
        spec = workload.draw_lik_spec(rng, 3, prior='obj_array')
        p = workload.make_prior_obj(spec['lo'], spec['hi'])
        u = np.random.default_rng(rng.getrandbits(32)).random((32, 3))
        a = p.unit_to_physical(u)
        for j in range(len(u)):
            if p.unit_to_physical(u[j]).tobytes() != a[j].tobytes():
                return False
    return True


def main(argv=None):
    ap = argparse.ArgumentParser()
    ap.add_argument('--replay')
    ap.add_argument('--exec-case')
    ap.add_argument('--runs', type=int)
    ap.add_argument('--no-minimise', action='store_true')
    args = ap.parse_args(argv)
    tier, seed = env.tier(), env.seed()
    if args.exec_case:
        import sys
        with open(args.exec_case) as f:
            case = json.load(f)
        mon.install_taps()
        r = e1.execute(case, (), wall=RUN_WALL * 3)
        sys.stdout.write('EXEC-CASE ' + json.dumps(dict(
            status=r['status'], parts=r.get('result_parts'),
            call_log=call_log_digest())) + '\n')
        return env.EXIT_OK
    t0 = time.time()
    import nautilus  # noqa: F401
    import sklearn.mixture  # noqa: F401
    import sklearn.neural_network  # noqa: F401
    import h5py  # noqa: F401
    bad = workload.selfcheck()
    if bad or not prior_selfcheck():
        report.say('HARNESS-ERROR: workload library is not bit-identical in '
                   'scalar and vectorised mode: {}'.format(bad[:3]))
        return env.EXIT_HARNESS
    workers = env.n_workers()
    if args.replay:
        with open(args.replay) as f:
            payload = json.load(f)
        r = replay_pair(payload['case'])
        report.say('replay of {}: {}'.format(args.replay, r.get('status')))
        if r.get('status') == 'violation':
            report.say('VIOLATION property={} replay={}'.format(
                PROP, args.replay))
            report.say('  class={} {}'.format(r['violation']['cls'],
                                              r['violation']['msg']))
            return env.EXIT_VIOLATION
        report.say('no longer reproduces')
        return env.EXIT_OK
    n = args.runs or int(os.environ.get('VERIF_RUNS', 0)) or dict(
        quick=96, thorough=1500)[tier]
    budget = float(os.environ.get('VERIF_BUDGET_S', 0)) or dict(
        quick=170, thorough=1500)[tier]
    verdict = report.Verdict(PROP)
    try:
        outs = orchestrator.run_parallel(
            run_pair, [(tier, seed, i) for i in range(n)], workers=workers,
            hard_wall=HARD_WALL, budget_s=budget)
    except orchestrator.HarnessError as e:
        report.say('HARNESS-ERROR: {}'.format(e))
        return env.EXIT_HARNESS
    status, kinds_ok = {}, {}
    faults, pool, probes = {}, {}, {}
    sigs = set()
    samples = []
    failing = []
    sim_s = 0.0
    for o in outs:
        if o is None:
            continue
        status[o['status']] = status.get(o['status'], 0) + 1
        if o['status'] == 'harness':
            report.say('HARNESS-ERROR: pair {}: {}'.format(o['i'],
                                                           o.get('error')))
            return env.EXIT_HARNESS
        for table, src in ((faults, o.get('faults')), (pool, o.get('pool')),
                           (probes, o.get('probes'))):
            for k, v in (src or {}).items():
                if k.startswith('max_'):
                    table[k] = max(table.get(k, 0), v)
                else:
                    table[k] = table.get(k, 0) + v
        sim_s += o.get('sim_seconds') or 0
        if o['status'] == 'ok':
            kinds_ok[o['kind']] = kinds_ok.get(o['kind'], 0) + 1
            sigs.add((o['kind'], o['sig_seq']))
            if len(samples) < 4:
                samples.append(dict(run=o['i'], kind=o['kind'],
                                    base_ops=o['base']['ops'][:12],
                                    variant_ops=o['var']['ops'][:12],
                                    variant_pool_l=o['var']['cfg']['pool_l'],
                                    base_pool_l=o['base']['cfg']['pool_l']))
        elif o['status'] == 'violation':
            failing.append(o)
    reported = set()
    for o in failing:
        v = o['violation']
        if v['cls'] in reported:
            continue
        reported.add(v['cls'])
        case = dict(kind=o['kind'], base=o['base'], var=o['var'])
        path = report.write_replay(PROP, seed, o['i'], dict(
            case=case, violation=v, traceback=o.get('traceback')))
        verdict.add_violation(v, path, case)
    wall = time.time() - t0
    n_eval = sum(status.values())
    coverage = dict(
        evaluations=n_eval, distinct_nontrivial=len(sigs),
        rule=('one case = a pair (base, variant) of simulated runs with the '
              'same seed, settings and slicing that differ in exactly one '
              'invisible dimension: nothing (two identical runs), scalar vs '
              'vectorised likelihood, likelihood-pool presence/size/flavour '
              'and seeded worker order at equal n_batch, sampler-pool flavour '
              'and task order at equal size, verbosity, checkpoint written '
              'or not, read-only accessors (log_z, evidence(), n_eff, eta, '
              'f_live, posterior(), shell_bound_occupation(), ...) called '
              'between one-batch slices.  Oracle: digests of posterior with '
              'blobs, log_z, n_eff, n_like, generator state and the ordered '
              'likelihood call log are equal.  Non-trivial and distinct: '
              'completed pairs, distinct by (variant kind, state-signature '
              'sequence of the variant).'),
        samples=samples or [dict(note='no pair completed')],
        pairs_by_kind=kinds_ok, status_counts=status, faults_fired=faults,
        pool=pool, probes=probes, simulated_seconds=round(sim_s, 1),
        runs_per_hour=round(2 * n_eval / max(wall, 1e-9) * 3600),
        components=report.COMPONENTS,
        known_findings_matched=len(verdict.known))
    report.write_evidence(
        PROP, 'exploration', coverage, wall,
        violations=len(verdict.violations),
        assumptions=['"unweighted posterior" in the statement is read as '
                     'posterior() with its default arguments; '
                     'posterior(equal_weight=True) is documented to draw '
                     'random numbers (C14) and is not treated as read-only',
                     'pool size of the SAMPLER pool is part of the algorithm '
                     '(number of jobs), only its flavour and task order are '
                     'varied; the LIKELIHOOD pool size is varied freely'])
    report.say('{} {}: pairs {} by kind {}; {:.0f} s'.format(
        PROP, tier, status, kinds_ok, wall))
    if verdict.violations:
        return env.EXIT_VIOLATION
    if len(sigs) < 2:
        report.say('HARNESS-ERROR: nothing was decided')
        return env.EXIT_HARNESS
    return env.EXIT_OK

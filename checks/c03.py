"""C03 - posterior rows are faithful (point, log-likelihood, blob) triples,
once each, whatever the evaluation mode."""
from checks import e1_driver
from engines import e1_monitors as mon


class SpecC03(e1_driver.Spec):
    prop = 'C03'
    monitor = mon.MonC03
    profile = dict(p_pool_l=0.45, p_pool_s=0.15, blob_any=True,
                   prior_choices=['fn', 'fn_inplace', 'fn_inplace', 'obj',
                                  'obj_array', 'fn_dict'],
                   n_batch=[1, 1, 2, 5, 7, 10, 20, 50],
                   fault_kinds=['stop_resume', 'stop_resume', 'kill', 'kill',
                                'kill_in_write', 'slice', 'toggle',
                                'timeout'])
    runs = dict(quick=96, thorough=1800)
    budget = dict(quick=130, thorough=1500)
    sut_exception_is_violation = True
    rule = ('cases draw the evaluation mode at random: scalar/vectorised, '
            'array/dict arguments, Prior object or prior function (also one '
            'that modifies its argument in place, or returns dicts), six blob '
            'kinds (float, int, two blobs, user structured dtype with a bytes '
            'field, one dtype for several blobs, array blob), n_batch from 1, '
            'likelihood pool in four flavours with seeded task order; '
            'histories with transfers, toggles, kills and resumes.  At every '
            'run() return, toggle and resume every posterior row is looked up '
            'in the recorder (exact bytes of the argument -> log_l, blob), '
            'must occur once, and is re-evaluated with the pure likelihood.  '
            'An exception raised inside nautilus is a violation here.  '
            'Non-trivial: completed history with a blob, >=1 fault fired and '
            'transfers applied.  Distinct: distinct (evaluation mode, '
            'state-signature sequence).')
    assumptions = ['likelihood library is bit-identical in scalar and '
                   'vectorised mode (verified by a start-up self-check)']

    def nontrivial(self, r):
        f = r.get('faults') or {}
        p = r.get('probes') or {}
        fired = sum(f.get(k, 0) for k in ('stop_resume', 'kill', 'toggle',
                                         'slice', 'kill_in_write'))
        return fired > 0 and p.get('transfers_applied', 0) > 0

    def monitor_stats(self, m):
        return dict(oracle_evaluations=m.n_checks,
                    posterior_rows_checked=m.rows_checked)


def main(argv=None):
    from simkit import workload, report, env
    bad = workload.selfcheck()
    if bad:
        report.say('HARNESS-ERROR: likelihood library differs between scalar '
                   'and vectorised mode: {}'.format(bad[:3]))
        return env.EXIT_HARNESS
    return e1_driver.main(SpecC03(), argv)

"""C05 - stopping and resuming at any batch boundary does not change the result.

Three layers (DESIGN.md section 5):
 1. every batch boundary k of a configuration: resume from the checkpoint as it
    was at k, run exactly one batch (plain, and with a kill injected into that
    batch first), compare the complete state with the reference after batch
    k+1; a difference is confirmed by running both to completion before it is
    reported;
 2. seeded chains of stops, kills, timeouts and slices run to completion and
    compared with the uninterrupted twin;
 3. no point evaluated twice (except the rows of a killed batch).
"""

import argparse
import copy
import json
import os
import shutil
import tempfile
import time

import numpy as np

from simkit import env, report, orchestrator, rng as R, digest
from simkit.workload import REC, SimKill
from engines import e1_sampler as e1
from engines import e1_monitors as mon

PROP = 'C05'
MAX_B = dict(quick=120, thorough=1500)
RUN_WALL = 30
HARD_WALL = 600

PROFILE = dict(
    p_pool_l=0.25, p_pool_s=0.15, ckpt=True, p_long_sampling=0.12, p_frequent_bounds=0.2, p_many_ellipsoids=0.2,
    fault_kinds=['stop_resume', 'stop_resume', 'stop_resume', 'kill', 'kill',
                 'kill_in_write', 'slice', 'timeout', 'observe'])

STATEMENT_KEYS = ('n_like', 'log_z', 'n_eff', 'posterior')


class MonRepeat(e1.Monitor):
    """Layer 3: which rows were lost in kills (the only legal repeats)."""
    prop = PROP

    def attach(self, world):
        self.lost = set()

    def on_event(self, world, tag, info):
        if tag == 'kill':
            n = REC.batch_rows.get(REC.batch, 0)
            for k, _ in REC.calls[len(REC.calls) - n:]:
                self.lost.add(k)

    def finish(self, world):
        for idx, key in REC.repeats:
            if key not in self.lost:
                world.violate(PROP, 'point_evaluated_twice',
                              'evaluation {} repeats an argument that was '
                              'not part of a killed batch'.format(idx),
                              row=np.frombuffer(key, dtype=np.float64))


def statement_digest(parts):
    return digest.digest({k: parts.get(k) for k in STATEMENT_KEYS})


# ---------------------------------------------------------------------------
# layer 2 + 3: chains
# ---------------------------------------------------------------------------

def run_chain(args):
    tier, seed, i = args
    mon.install_taps()
    rng = R.run_rng(PROP, tier, seed, i, 'chain')
    cfg = e1.draw_cfg(rng, PROFILE)
    out = dict(i=i, kind='chain', cfg=cfg)
    twin = e1.execute(dict(cfg=cfg, ops=[['finish']], tag='twin'),
                      [MonRepeat()], wall=RUN_WALL)
    out['twin_status'] = twin['status']
    if twin['status'] == 'violation':
        out.update(status='violation', violation=twin['violation'],
                   ops=[['finish']])
        return out
    if twin['status'] != 'ok' or not twin.get('last_ret') or twin.get(
            'hit_cap'):
        out['status'] = 'discarded'
        out['why'] = twin['status'] + ':' + str(twin.get('error'))[:200]
        return out
    ops = e1.draw_history(rng, cfg, twin['timeline'], PROFILE,
                          twin.get('probes'))
    r = rng.random()
    if r < 0.12:
        # a leftover checkpoint of an earlier computation sits at the path;
        # the user starts over with resume=False
        ops = [['run', rng.choice([1, 3, 10, 40, 400])], ['restart_fresh']] \
            + ops
    elif r < 0.28:
        # ... and the new computation is stopped early (before its first
        # bound insertion) and resumed from the file
        # (the leftover must have moved past its first bound insertion,
        # otherwise - same seed - it coincides with the new computation)
        ops = [['run', rng.choice([40, 400, 400])],
               ['restart_fresh'], ['run', rng.choice([1, 1, 2, 3])],
               rng.choice([['stop_resume'], ['kill', 0, 0, None]]),
               ['finish']]
    out['ops'] = ops
    res = e1.execute(dict(cfg=cfg, ops=ops, tag='hist'), [MonRepeat()],
                     wall=RUN_WALL * 3)
    out.update(compare_with_twin(twin, res))
    for k in ('faults', 'probes', 'pool', 'sig_seq', 'sim_seconds', 'rows',
              'events_digest'):
        out[k] = res.get(k)
    return out


def compare_with_twin(twin, res):
    """Verdict of a history against its fault-free twin."""
    if res['status'] == 'violation':
        return dict(status='violation', violation=res['violation'])
    if res['status'] == 'harness':
        return dict(status='harness', error=res.get('error'))
    if res['status'] == 'timeout':
        return dict(status='timeout')
    if res['status'] == 'sut_exception':
        return dict(status='violation', violation=dict(
            prop=PROP, cls='exception',
            msg='the uninterrupted run finished, the interrupted one raised '
                '{}'.format(res.get('error')),
            detail=dict(where=res.get('where'))),
            traceback=res.get('traceback'))
    if not res.get('last_ret'):
        return dict(status='violation', violation=dict(
            prop=PROP, cls='did_not_finish',
            msg='the uninterrupted run finished successfully, the '
                'interrupted one stopped without success', detail={}))
    a = statement_digest(twin['result_parts'])
    b = statement_digest(res['result_parts'])
    if a != b:
        diff = [k for k in STATEMENT_KEYS
                if twin['result_parts'].get(k) != res['result_parts'].get(k)]
        return dict(status='violation', violation=dict(
            prop=PROP, cls='result_differs',
            msg='final {} differ from the uninterrupted run'.format(diff),
            detail=dict(differs=diff)))
    return dict(status='ok')


def replay_chain(case):
    mon.install_taps()
    twin = e1.execute(dict(cfg=case['cfg'], ops=[['finish']], tag='twin'),
                      [MonRepeat()], wall=RUN_WALL * 3)
    if twin['status'] == 'violation':
        return dict(status='violation', violation=twin['violation'])
    if twin['status'] != 'ok' or not twin.get('last_ret'):
        return dict(status='discarded')
    res = e1.execute(dict(cfg=case['cfg'], ops=case['ops'], tag='hist'),
                     [MonRepeat()], wall=RUN_WALL * 6)
    return compare_with_twin(twin, res)


def _cls(r):
    return r['violation']['cls'] if r and r.get('status') == 'violation' \
        else None


def minimise_chain(case, cls, budget_s, workers):
    t0 = time.time()
    best = copy.deepcopy(case)

    def still(cands):
        if not cands:
            return None
        res = orchestrator.run_parallel(replay_chain, cands, workers=workers,
                                        hard_wall=HARD_WALL)
        for c, r in zip(cands, res):
            if _cls(r) == cls:
                return c
        return None
    changed = True
    while changed and time.time() - t0 < budget_s:
        changed = False
        cands = []
        for j in range(len(best['ops'])):
            c = copy.deepcopy(best)
            c['ops'] = best['ops'][:j] + best['ops'][j + 1:]
            if c['ops']:
                cands.append(c)
        got = still(cands)
        if got is not None:
            best, changed = got, True
    for path, val in [('pool_l', None), ('pool_s', None),
                      ('sampler.n_networks', 0), ('sampler.periodic', None),
                      ('lik.blob', 'none'), ('lik.vectorized', False),
                      ('cost', 0.0), ('run.n_eff', 0)]:
        if time.time() - t0 > budget_s:
            break
        c = copy.deepcopy(best)
        d = c['cfg']
        keys = path.split('.')
        for k in keys[:-1]:
            d = d[k]
        if d.get(keys[-1]) == val:
            continue
        d[keys[-1]] = val
        got = still([c])
        if got is not None:
            best = got
    return best


# ---------------------------------------------------------------------------
# layer 1: every boundary
# ---------------------------------------------------------------------------

def full_state(world):
    """Complete observable state after a batch: result parts, generator,
    logical content of the checkpoint."""
    _, parts = digest.result_digest(world.sampler)
    parts = dict(parts)
    # sampling state of every bound (proposal caches and counters): not part
    # of any result yet, but it decides every future proposal
    bs = []
    for b in world.sampler.bounds:
        for o in (b, getattr(b, 'outer_bound', None)):
            if o is not None and hasattr(o, 'n_sample'):
                bs.append([int(o.n_sample), int(o.n_reject),
                           np.asarray(o.points)])
    parts['bound_sampling_state'] = digest.digest(bs)
    # geometry of every bound, member ellipsoids in their stored order
    parts['bound_geometry'] = digest.digest(
        [mon.bound_fingerprint(b) for b in world.sampler.bounds])
    s = world.sampler
    parts['sampler_state'] = digest.digest(dict(
        explored=bool(s.explored), discard=bool(s._discard_exploration),
        n_update_iter=int(s.n_update_iter), n_like_iter=int(s.n_like_iter),
        shell=[np.asarray(getattr(s, k)) for k in (
            'shell_n', 'shell_n_sample', 'shell_n_eff', 'shell_log_l_min',
            'shell_log_l', 'shell_log_v', 'shell_n_sample_exp',
            'shell_end_exp')],
        transfer=[np.asarray(s.shell_t), np.asarray(s.points_t),
                  np.asarray(s.log_l_t),
                  None if s.blobs_t is None else np.asarray(s.blobs_t)],
        points=[np.asarray(x) for x in s.points],
        log_l=[np.asarray(x) for x in s.log_l],
        blobs=None if s.blobs is None else [np.asarray(x) for x in s.blobs]))
    try:
        parts['file'], _ = digest.h5_file_logical(world.filepath)
    except Exception as e:
        parts['file'] = 'EXC:' + type(e).__name__
    return parts


def build_reference(args):
    """Drive the reference one batch at a time; keep a copy of the checkpoint
    and the complete state at every boundary."""
    tier, seed, i, root = args
    mon.install_taps()
    rng = R.run_rng(PROP, tier, seed, i, 'boundary')
    cfg = e1.draw_cfg(rng, PROFILE)
    cfg['ckpt'] = True
    out = dict(i=i, kind='reference', cfg=cfg)
    twin = e1.run_twin(cfg, wall=RUN_WALL)
    if twin['status'] != 'ok' or not twin.get('last_ret') or twin.get(
            'hit_cap'):
        out['status'] = 'discarded'
        out['why'] = twin['status']
        return out
    B = twin['batches']
    if B > MAX_B[tier]:
        # exhaustive over boundaries means all of them: configurations with
        # more boundaries than the tier can afford are left to the other tier
        out['status'] = 'discarded'
        out['why'] = 'too many boundaries for this tier ({})'.format(B)
        return out
    d = os.path.join(root, 'cfg{}'.format(i))
    os.makedirs(d, exist_ok=True)
    e1.install_clock()
    world = e1.World(cfg, d, (), tag='ref')
    states = []
    try:
        np.seterr(all='ignore')
        import warnings
        warnings.simplefilter('ignore')
        world.new_sampler('fresh')
        for k in range(1, B + 1):
            world.apply(['run', 1])
            shutil.copyfile(world.filepath,
                            os.path.join(d, 'F{}.h5'.format(k)))
            states.append(full_state(world))
            if world.last_run['ret']:
                break
        ret = world.last_run['ret']
        _, parts = digest.result_digest(world.sampler)
    except Exception as e:
        out['status'] = 'violation'
        out['violation'] = dict(
            prop=PROP, cls='exception',
            msg='the uninterrupted run finished, the run sliced into single '
                'batches raised {}: {}'.format(type(e).__name__, e),
            detail={})
        out['ops'] = [['run', 1]] * B
        return out
    out['B'] = len(states)
    out['dir'] = d
    out['states'] = states
    out['timeline'] = twin['timeline']
    # in-memory continuation: B single-batch slices equal one run
    if not ret or statement_digest(parts) != statement_digest(
            twin['result_parts']):
        out['status'] = 'violation'
        out['violation'] = dict(
            prop=PROP, cls='result_differs',
            msg='slicing the run into single batches (same object) changes '
                'the final result (finished={})'.format(bool(ret)),
            detail={})
        out['ops'] = [['run', 1]] * B + [['finish']]
        return out
    out['status'] = 'ok'
    return out


def check_boundaries(args):
    """For boundaries k in `ks`: resume from F_k, one batch, compare with the
    reference state k+1; the same after a kill injected into that batch."""
    cfg, d, ks, states, kill_seed = args
    mon.install_taps()
    e1.install_clock()
    np.seterr(all='ignore')
    import warnings
    warnings.simplefilter('ignore')
    rng = R.run_rng(PROP, 'b', kill_seed, ks[0] if ks else 0, 'kills')
    nb = cfg['sampler']['n_batch']
    found = []
    n_plain = n_kill = 0
    for k in ks:
        want = states[k]            # state after batch k+1 (0-based list)
        for variant in ('plain', 'kill'):
            sub = tempfile.mkdtemp(prefix='b{}-'.format(k), dir=d)
            try:
                world = e1.World(cfg, sub, (), tag='w')
                shutil.copyfile(os.path.join(d, 'F{}.h5'.format(k)),
                                world.filepath)
                world.new_sampler('stop')
                if variant == 'kill':
                    REC.arm_kill(0, rng.randrange(nb))
                    try:
                        world.do_run(n_like_max=int(
                            world.sampler.n_like) + nb)
                        REC.kill = None
                        continue    # run was already complete
                    except SimKill:
                        world.in_run = False
                    # (the file may legitimately have moved on: a bound
                    # inserted at the start of this iteration is written
                    # before the batch is evaluated)
                    world.new_sampler('kill')
                    n_kill += 1
                else:
                    n_plain += 1
                world.apply(['run', 1])
                got = full_state(world)
                if got != want:
                    diff = sorted(x for x in want if got.get(x) != want[x])
                    found.append(dict(k=k, variant=variant,
                                      cls='state_differs', diff=diff))
            except Exception as e:
                found.append(dict(k=k, variant=variant, cls='exception',
                                  msg='{}: {}'.format(type(e).__name__, e)))
            finally:
                shutil.rmtree(sub, ignore_errors=True)
    return dict(found=found, n_plain=n_plain, n_kill=n_kill)


def boundary_case(cfg, k, variant):
    """Explicit history equivalent to a boundary finding, run to the end."""
    ops = []
    if k > 0:
        ops.append(['run', k])
    if variant == 'kill':
        ops.append(['kill', 0, 0, None])
    else:
        ops.append(['stop_resume'])
    ops.append(['finish'])
    return dict(cfg=cfg, ops=ops)


# ---------------------------------------------------------------------------
# layer 4: the process dies inside a checkpoint write, then resumes
# ---------------------------------------------------------------------------

def layer4(tier, seed, root, workers, n_runs, per_run):
    """Kill a real child process before a file operation inside a
    checkpoint write (crash-point engine E2), let a fresh process resume and
    finish; the final result must equal the uninterrupted run's."""
    from checks import c06
    from engines import e2_crash as e2
    e2.ensure_shim()
    infos = orchestrator.run_parallel(
        c06.record_run, [(tier, seed, 1000 + i, root, None)
                         for i in range(n_runs)],
        workers=workers, hard_wall=HARD_WALL)
    kills = []
    rng = R.run_rng(PROP, tier, seed, 0, 'layer4')
    for info in infos:
        if info is None or info['status'] != 'ok':
            continue
        recs = e2.parse_log(info['log'])
        ops, _ = e2.annotate(recs)
        windows = {}
        for o in ops:
            if o['inside'] is not None:
                windows.setdefault((o['n_completed'], o['inside']),
                                   []).append(o['n'])
        full = [w for w in sorted(windows) if w[1] == 'full']
        upd = [w for w in sorted(windows) if w[1] != 'full']
        rng.shuffle(upd)
        chosen = full + upd[:max(0, per_run - len(full))]
        for w in chosen[:per_run]:
            kills.append((info, rng.choice(windows[w]), None, 'identical'))
    res = orchestrator.run_parallel(c06.real_kill, kills, workers=workers,
                                    hard_wall=HARD_WALL)
    return infos, kills, res


def main(argv=None):
    ap = argparse.ArgumentParser()
    ap.add_argument('--replay')
    ap.add_argument('--chains', type=int)
    ap.add_argument('--configs', type=int)
    ap.add_argument('--no-minimise', action='store_true')
    args = ap.parse_args(argv)
    tier, seed = env.tier(), env.seed()
    t0 = time.time()
    import nautilus  # noqa: F401
    import sklearn.mixture  # noqa: F401
    import sklearn.neural_network  # noqa: F401
    import h5py  # noqa: F401
    mon.install_taps()
    workers = env.n_workers()

    if args.replay:
        with open(args.replay) as f:
            payload = json.load(f)
        if payload['case'].get('engine') == 'e2':
            from checks import c06
            from engines import e2_crash as e2
            e2.ensure_shim()
            root = tempfile.mkdtemp(prefix='verif-c05-',
                                    dir=env.scratch_root())
            try:
                c = payload['case']
                info = c06.record_run((tier, seed, 0, root, c['cfg']))
                if info['status'] != 'ok':
                    report.say('HARNESS-ERROR: ' + str(info.get('error')))
                    return env.EXIT_HARNESS
                k = c06.real_kill((info, c['n'], c.get('torn'), 'identical'))
            finally:
                shutil.rmtree(root, ignore_errors=True)
            r = dict(status=k['status'])
            if k['status'] == 'violation':
                r['violation'] = dict(cls=k['cls'], msg=k['msg'])
        else:
            r = replay_chain(payload['case'])
        report.say('replay of {}: {}'.format(args.replay, r.get('status')))
        if r.get('status') == 'violation':
            report.say('VIOLATION property={} replay={}'.format(
                PROP, args.replay))
            report.say('  class={} {}'.format(r['violation']['cls'],
                                              r['violation']['msg']))
            return env.EXIT_VIOLATION
        report.say('no longer reproduces')
        return env.EXIT_OK

    n_cfg = args.configs or int(os.environ.get('VERIF_CONFIGS', 0)) or dict(
        quick=10, thorough=64)[tier]
    n_chain = args.chains or int(os.environ.get('VERIF_RUNS', 0)) or dict(
        quick=44, thorough=1500)[tier]
    budget = float(os.environ.get('VERIF_BUDGET_S', 0)) or dict(
        quick=100, thorough=1400)[tier]
    verdict = report.Verdict(PROP)
    root = tempfile.mkdtemp(prefix='verif-c05-', dir=env.scratch_root())
    failing = []     # (case, violation, run index, extra)
    stats = dict(boundaries_plain=0, boundaries_kill=0, configs_exhaustive=0,
                 benign_state_differences=0, discarded=0)
    try:
        # ---- layer 1 -----------------------------------------------------
        refs = orchestrator.run_parallel(
            build_reference, [(tier, seed, i, root) for i in range(n_cfg)],
            workers=workers, hard_wall=HARD_WALL)
        t_refs = time.time() - t0
        tasks = []
        for ref in refs:
            if ref is None:
                continue
            if ref['status'] == 'discarded':
                stats['discarded'] += 1
                continue
            if ref['status'] == 'violation':
                failing.append((dict(cfg=ref['cfg'], ops=ref['ops']),
                                ref['violation'], ref['i'], {}))
                continue
            stats['configs_exhaustive'] += 1
            B = ref['B']
            ks = list(range(1, B))      # boundary k: F_k -> state[k]
            chunk = max(1, (len(ks) + 7) // 8)
            for c in range(0, len(ks), chunk):
                tasks.append((ref, (ref['cfg'], ref['dir'], ks[c:c + chunk],
                                    ref['states'], seed)))
        outs = orchestrator.run_parallel(
            check_boundaries, [t[1] for t in tasks], workers=workers,
            hard_wall=HARD_WALL)
        suspects = []
        for (ref, _), o in zip(tasks, outs):
            if o is None:
                continue
            stats['boundaries_plain'] += o['n_plain']
            stats['boundaries_kill'] += o['n_kill']
            for f in o['found']:
                suspects.append((ref, f))
        # a state difference is reported only if it changes the final result
        seen = set()
        confirm = []
        for ref, f in suspects:
            key = (ref['i'], f['cls'], f.get('variant'))
            if key in seen:
                continue
            seen.add(key)
            confirm.append((ref, f, boundary_case(ref['cfg'], f['k'],
                                                  f['variant'])))
        res = orchestrator.run_parallel(
            replay_chain, [c for _, _, c in confirm[:32]], workers=workers,
            hard_wall=HARD_WALL)
        for (ref, f, case), r in zip(confirm[:32], res):
            if r is not None and r.get('status') == 'violation':
                failing.append((case, r['violation'], ref['i'],
                                dict(boundary=f)))
            else:
                stats['benign_state_differences'] += 1
        t_l1 = time.time() - t0
        # ---- layers 2 and 3 ------------------------------------------------
        left = max(30.0, budget - (time.time() - t0))
        chains = orchestrator.run_parallel(
            run_chain, [(tier, seed, i) for i in range(n_chain)],
            workers=workers, hard_wall=HARD_WALL, budget_s=left)
        t_l23 = time.time() - t0
        # ---- layer 4 -----------------------------------------------------
        l4_infos, l4_kills, l4_res = layer4(
            tier, seed, root, workers,
            dict(quick=2, thorough=16)[tier], dict(quick=8, thorough=24)[tier])
        stats['file_op_kills'] = 0
        stats['file_op_kill_outcomes'] = {}
        for (info, n, torn, _), r in zip(l4_kills, l4_res):
            if r is None:
                continue
            stats['file_op_kills'] += 1
            st = r['status']
            stats['file_op_kill_outcomes'][st] = stats[
                'file_op_kill_outcomes'].get(st, 0) + 1
            if st == 'harness':
                report.say('HARNESS-ERROR: ' + r['error'])
                return env.EXIT_HARNESS
            if st == 'violation' and r['cls'] in ('resume_differs',
                                                  'resume_failed'):
                failing.append((dict(engine='e2', cfg=info['cfg'], n=n,
                                     torn=torn),
                                dict(prop=PROP, cls=r['cls'] + '_after_kill_'
                                     'in_checkpoint_write', msg=r['msg'],
                                     detail={}), info['i'], {}))
    except orchestrator.HarnessError as e:
        report.say('HARNESS-ERROR: {}'.format(e))
        shutil.rmtree(root, ignore_errors=True)
        return env.EXIT_HARNESS
    finally:
        shutil.rmtree(root, ignore_errors=True)

    status = {}
    faults, probes = {}, {}
    sigs, nontriv, samples = set(), set(), []
    sim_s = 0.0
    for c in chains:
        if c is None:
            continue
        status[c['status']] = status.get(c['status'], 0) + 1
        if c['status'] == 'harness':
            report.say('HARNESS-ERROR: chain {}: {}'.format(c['i'],
                                                            c.get('error')))
            return env.EXIT_HARNESS
        if c['status'] == 'violation':
            failing.append((dict(cfg=c['cfg'], ops=c['ops']), c['violation'],
                            c['i'], dict(traceback=c.get('traceback'))))
        for table, src in ((faults, c.get('faults')),
                           (probes, c.get('probes'))):
            for k, v in (src or {}).items():
                table[k] = table.get(k, 0) + v
        sim_s += c.get('sim_seconds') or 0
        if c['status'] == 'ok':
            sigs.add(c['sig_seq'])
            f = c.get('faults') or {}
            if f.get('stop_resume', 0) + f.get('kill', 0) + f.get(
                    'kill_in_write', 0) > 0:
                nontriv.add(c['sig_seq'])
                if len(samples) < 3:
                    samples.append(dict(run=c['i'], ops=c['ops'],
                                        lik=c['cfg']['lik']['family'],
                                        blob=c['cfg']['lik']['blob'],
                                        faults=f))

    reported = set()
    for case, v, idx, extra in failing:
        key = v['cls']
        if key in reported:
            continue
        reported.add(key)
        small = case
        if not args.no_minimise and case.get('engine') != 'e2':
            try:
                small = minimise_chain(case, v['cls'],
                                       60 if tier == 'quick' else 180,
                                       workers)
            except orchestrator.HarnessError as e:
                report.say('note: minimisation aborted: {}'.format(e))
        path = report.write_replay(PROP, seed, idx, dict(
            case=small, original_case=case, violation=v, extra=extra))
        verdict.add_violation(v, path, small)

    n_eval = (stats['boundaries_plain'] + stats['boundaries_kill'] +
              sum(status.values()) + stats.get('file_op_kills', 0))
    wall = time.time() - t0
    coverage = dict(
        evaluations=n_eval,
        distinct_nontrivial=len(nontriv) + stats['boundaries_plain'] +
        stats['boundaries_kill'],
        rule=('layer 1: for each of {} configurations EVERY batch boundary k '
              '(exhaustive within the configuration; configurations are '
              'sampled) is a crash point: a fresh sampler resumes from the '
              'checkpoint as it was at k, runs one batch - directly, and '
              'again after a kill injected at a seeded row of that batch - '
              'and its complete state (checkpoint logical content, n_like, '
              'log_z, n_eff, generator, posterior) is compared with the '
              'reference after batch k+1; differences are confirmed by '
              'running to completion.  layer 2/3: seeded chains of stops, '
              'kills, timeouts, slices run to completion and compared bit '
              'for bit with the uninterrupted twin; no argument evaluated '
              'twice except rows of a killed batch.  Non-trivial and '
              'distinct: every (configuration, boundary, variant) triple is '
              'one distinct crash point; a chain counts if >=1 stop or kill '
              'fired, distinct by state-signature sequence.'.format(
                  stats['configs_exhaustive'])),
        samples=samples or [dict(note='no chain with a stop/kill completed')],
        exhaustive=False,
        boundaries_resumed_plain=stats['boundaries_plain'],
        boundaries_resumed_after_kill=stats['boundaries_kill'],
        kills_inside_checkpoint_write_then_resume=stats.get(
            'file_op_kills', 0),
        kills_inside_checkpoint_write_outcomes=stats.get(
            'file_op_kill_outcomes', {}),
        configurations_with_every_boundary=stats['configs_exhaustive'],
        benign_state_differences=stats['benign_state_differences'],
        discarded_workloads=stats['discarded'] + status.get('discarded', 0),
        chains=status, chains_nontrivial=len(nontriv),
        faults_fired=faults, probes=probes,
        simulated_seconds=round(sim_s, 1),
        runs_per_hour=round(n_eval / max(wall, 1e-9) * 3600),
        components=report.COMPONENTS,
        known_findings_matched=len(verdict.known))
    report.write_evidence(
        PROP, 'fault_enumeration', coverage, wall,
        violations=len(verdict.violations),
        assumptions=['one BLAS thread and a fixed PYTHONHASHSEED in every '
                     'simulated process (otherwise bit-identity is not '
                     'defined)', 'stops happen at batch boundaries or inside '
                     'a likelihood batch; kills inside a checkpoint write '
                     'are C06'])
    report.say('{} {}: {} configs x every boundary = {} plain + {} after-kill '
               'resumes; chains {}; {:.0f} s'.format(
                   PROP, tier, stats['configs_exhaustive'],
                   stats['boundaries_plain'], stats['boundaries_kill'],
                   status, wall))
    report.say('  faults fired: {}'.format(faults))
    report.say('  phases: references {:.0f} s, boundaries until {:.0f} s, '
               'chains until {:.0f} s, kills in writes until {:.0f} s'.format(
                   t_refs, t_l1, t_l23, wall))
    if verdict.violations:
        return env.EXIT_VIOLATION
    if stats['boundaries_plain'] + len(nontriv) < 2:
        report.say('HARNESS-ERROR: nothing was decided')
        return env.EXIT_HARNESS
    return env.EXIT_OK

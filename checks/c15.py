"""C15 - Prior maps the unit cube to parameters as declared; malformed
declarations are rejected atomically."""

import argparse
import copy
import json
import os
import time

from simkit import env, report, orchestrator, rng as R, digest
from engines import e4_prior as e4

PROP = 'C15'
CHUNK = 250


def run_chunk(args):
    tier, seed, c = args
    out = dict(c=c, n=0, ok=0, failing=[], kinds={}, accepted=0, rejected=0,
               queries=0, sigs=set(), samples=[])
    for j in range(CHUNK):
        i = c * CHUNK + j
        rng = R.run_rng(PROP, tier, seed, i)
        ops = e4.draw_history(rng, max_len=rng.choice([3, 5, 8, 8, 12]),
                              p_bad=rng.choice([0.0, 0.2, 0.3, 0.5]))
        case = dict(ops=ops, qseed=rng.randrange(2**31))
        r = e4.execute(case)
        out['n'] += 1
        st = r['stats']
        out['accepted'] += st['accepted']
        out['rejected'] += st['rejected']
        out['queries'] += st['queries']
        for k, v in st['kinds'].items():
            out['kinds'][k] = out['kinds'].get(k, 0) + v
        if r['status'] == 'violation':
            if len(out['failing']) < 20:
                out['failing'].append((i, case, r['violation']))
        else:
            out['ok'] += 1
            if st['rejected'] > 0 and st['accepted'] > 0:
                out['sigs'].add(digest.digest(
                    [[o[0], o[1] is None, type(o[1]).__name__] for o in ops]))
                if len(out['samples']) < 1:
                    out['samples'].append(dict(run=i, ops=ops))
    return out


def minimise(case, cls):
    best = copy.deepcopy(case)
    changed = True
    while changed:
        changed = False
        for j in range(len(best['ops'])):
            c = copy.deepcopy(best)
            c['ops'] = best['ops'][:j] + best['ops'][j + 1:]
            if not c['ops']:
                continue
            r = e4.execute(c)
            if r['status'] == 'violation' and r['violation']['cls'] == cls:
                best, changed = c, True
                break
    return best


def main(argv=None):
    ap = argparse.ArgumentParser()
    ap.add_argument('--replay')
    ap.add_argument('--runs', type=int)
    args = ap.parse_args(argv)
    tier, seed = env.tier(), env.seed()
    t0 = time.time()
    import nautilus  # noqa: F401
    import scipy.stats  # noqa: F401
    if args.replay:
        with open(args.replay) as f:
            payload = json.load(f)
        r = e4.execute(payload['case'])
        report.say('replay of {}: {}'.format(args.replay, r['status']))
        if r['status'] == 'violation':
            report.say('VIOLATION property={} replay={}'.format(
                PROP, args.replay))
            report.say('  class={} {}'.format(r['violation']['cls'],
                                              r['violation']['msg']))
            return env.EXIT_VIOLATION
        report.say('no longer reproduces')
        return env.EXIT_OK
    n = args.runs or int(os.environ.get('VERIF_RUNS', 0)) or dict(
        quick=24000, thorough=600000)[tier]
    budget = float(os.environ.get('VERIF_BUDGET_S', 0)) or dict(
        quick=100, thorough=1200)[tier]
    n_chunks = max(1, n // CHUNK)
    verdict = report.Verdict(PROP)
    try:
        outs = orchestrator.run_parallel(
            run_chunk, [(tier, seed, c) for c in range(n_chunks)],
            workers=env.n_workers(), hard_wall=600, budget_s=budget)
    except orchestrator.HarnessError as e:
        report.say('HARNESS-ERROR: {}'.format(e))
        return env.EXIT_HARNESS
    tot = dict(n=0, ok=0, accepted=0, rejected=0, queries=0)
    kinds, sigs, samples, failing = {}, set(), [], []
    for o in outs:
        if o is None:
            continue
        for k in tot:
            tot[k] += o[k]
        for k, v in o['kinds'].items():
            kinds[k] = kinds.get(k, 0) + v
        sigs |= o['sigs']
        samples += o['samples'][:1]
        failing += o['failing']
    failing.sort(key=lambda x: x[0])
    reported = set()
    for i, case, v in failing:
        if v['cls'] in reported:
            continue
        reported.add(v['cls'])
        small = minimise(case, v['cls'])
        v2 = e4.execute(small)['violation']
        path = report.write_replay(PROP, seed, i, dict(
            case=small, original_case=case, violation=v2))
        verdict.add_violation(v2, path, small)
    wall = time.time() - t0
    coverage = dict(
        evaluations=tot['n'], distinct_nontrivial=len(sigs),
        rule=('one case = a seeded declaration history of up to 12 '
              'add_parameter calls over {uniform range, frozen scipy '
              'distribution, fixed number, link to an earlier key incl. '
              'chains; explicit or automatic key} with injected malformed '
              'declarations (duplicate key, automatic key colliding with an '
              'explicit x_i, self-link, self-link through the automatic key, '
              'link to an undeclared key, non-string key, wrong dist type); '
              'after EVERY operation the real Prior is compared with a '
              'reference interpreter on seeded unit-cube inputs of shape (d,) '
              'and (n,d): dimensionality, shape, inverse CDF per column, '
              'monotonicity, independence, dictionary keys, fixed and linked '
              'values; a rejected declaration must raise ValueError/TypeError '
              'and leave keys/dists unchanged.  Non-trivial: completed '
              'history with >=1 accepted and >=1 rejected declaration.  '
              'Distinct: distinct sequences of (operation kind, key form).'),
        samples=samples[:3] or [dict(note='none')],
        declarations_accepted=tot['accepted'],
        declarations_rejected=tot['rejected'],
        injected_failures_by_kind=kinds, queries=tot['queries'],
        histories_ok=tot['ok'],
        runs_per_hour=round(tot['n'] / max(wall, 1e-9) * 3600),
        components=dict(real=['nautilus.Prior from the tree under test',
                              'scipy.stats frozen distributions'],
                        stub=['none: the fault is the rejected operation']),
        known_findings_matched=len(verdict.known))
    report.write_evidence(PROP, 'exploration', coverage, wall,
                          violations=len(verdict.violations),
                          assumptions=[
                              'inverse CDF compared with scipy ppf at 1e-6 '
                              'relative inside [1e-6, 1-1e-6]; uniform ranges '
                              'at 1e-12'])
    report.say('{} {}: {} histories, {} accepted / {} rejected declarations '
               '{}, {} distinct non-trivial; {:.0f} s'.format(
                   PROP, tier, tot['n'], tot['accepted'], tot['rejected'],
                   kinds, len(sigs), wall))
    if verdict.violations:
        return env.EXIT_VIOLATION
    if len(sigs) < 2:
        report.say('HARNESS-ERROR: nothing was decided')
        return env.EXIT_HARNESS
    return env.EXIT_OK

"""C06 - a kill at any instant leaves an atomic, loadable checkpoint.

Record every file operation of a checkpointed run below the real h5py/libhdf5
(LD_PRELOAD shim), take EVERY operation as a crash point (plus torn variants of
large writes), rebuild the file the kill would leave, classify it with the real
h5py and compare with the states the run had completely written; validate the
disk model and the promise with real kills (_exit before operation n) followed
by a real resume."""

import argparse
import json
import os
import random
import shutil
import tempfile
import time

from simkit import env, report, orchestrator, rng as R, digest
from engines import e1_sampler as e1
from engines import e2_crash as e2

PROP = 'C06'
PAGE = 4096

PROFILE = dict(p_pool_l=0.0, p_pool_s=0.0, ckpt=True,
               n_live=[20, 30, 40], n_batch=[5, 10, 20],
               n_networks=[0, 0, 1])


def draw_cfg(rng):
    cfg = e1.draw_cfg(rng, PROFILE)
    cfg['ckpt'] = True
    cfg['cost'] = 0.0
    # bounded number of batches (each batch is ~30 file operations)
    cfg['cap_rows'] = cfg['sampler']['n_batch'] * rng.choice([40, 60, 90])
    cfg['run']['n_eff'] = rng.choice([0, 30, 60])
    cfg['run']['f_live'] = rng.choice([0.1, 0.2, 0.3])
    if cfg['sampler']['enlarge_per_dim'] == 100.0:
        cfg['sampler']['enlarge_per_dim'] = 1.1
    return cfg


def setup_run(root, i, cfg):
    d = os.path.join(root, 'run{}'.format(i))
    work = os.path.join(d, 'work')
    meta = os.path.join(d, 'meta')
    os.makedirs(work)
    os.makedirs(meta)
    cfg_path = os.path.join(meta, 'cfg.json')
    with open(cfg_path, 'w') as f:
        json.dump(cfg, f)
    return d, work, meta, cfg_path


def record_run(args):
    tier, seed, i, root, cfg = args
    if cfg is None:
        rng = R.run_rng(PROP, tier, seed, i)
        cfg = draw_cfg(rng)
    d, work, meta, cfg_path = setup_run(root, i, cfg)
    log = os.path.join(meta, 'ops.log')
    rc, res, out = e2.run_child(cfg_path, work, 'record',
                                os.path.join(meta, 'record.json'), log=log)
    info = dict(i=i, cfg=cfg, dir=d, work=work, meta=meta, log=log,
                cfg_path=cfg_path, ckpt=os.path.join(work, 'ckpt.h5'))
    if rc != 0 or res is None or res.get('status') != 'ok':
        info['status'] = 'child_failed'
        info['error'] = (res or {}).get('error') or out[-600:]
        info['traceback'] = (res or {}).get('traceback')
        return info
    recs = e2.parse_log(log)
    ops, completed = e2.annotate(recs)
    # fidelity of the disk model: replaying the whole log reproduces the
    # directory the run really left, byte for byte
    fs = e2.FS()
    for r in recs:
        fs.apply(r)
    real = {}
    for name in sorted(os.listdir(work)):
        with open(os.path.join(work, name), 'rb') as f:
            real[os.path.join(work, name)] = f.read()
    if fs.unmodelled:
        info['status'] = 'unmodelled'
        info['error'] = '; '.join(sorted(set(fs.unmodelled)))
        return info
    if fs.listing() != real:
        info['status'] = 'unmodelled'
        info['error'] = ('replaying the operation log does not reproduce the '
                         'directory: model {} vs real {}'.format(
                             {k: len(v) for k, v in fs.listing().items()},
                             {k: len(v) for k, v in real.items()}))
        return info
    if len(ops) != res.get('ops'):
        info['status'] = 'unmodelled'
        info['error'] = 'log has {} operations, the shim counted {}'.format(
            len(ops), res.get('ops'))
        return info
    info.update(status='ok', n_ops=len(ops), n_completed=len(completed),
                result=res['result'], probes=res.get('probes'),
                explored=res.get('explored'), n_like=res.get('n_like'),
                batches=res.get('batches'),
                kinds={k: sum(1 for o in ops if o['kind'] == k)
                       for k in set(o['kind'] for o in ops)},
                bytes_written=sum(len(r['payload']) for r in recs
                                  if r['kind'] in (e2.K_WRITE, e2.K_COPY)),
                final_size=len(real.get(info['ckpt'], b'')))
    return info


def scan_chunk(args):
    """Classify the checkpoint before every operation n in [n0, n1)."""
    log, ckpt, n0, n1, torn_seed = args
    recs = e2.parse_log(log)
    ops, completed = e2.annotate(recs)
    by_rec = {o['rec']: o for o in ops}
    rng = random.Random(torn_seed)
    fs = e2.FS()
    out = dict(points=0, torn_points=0, ok=0, tolerated=0, found=[],
               classes={}, distinct=set(), inside={})
    for i, r in enumerate(recs):
        o = by_rec.get(i)
        if o is not None and n0 <= o['n'] < n1:
            cls = e2.classify(fs.content(ckpt))
            cls_v, why = e2.verdict_for(cls, o)
            out['points'] += 1
            key = 'kill before {} in {}'.format(o['kind'], o['inside'])
            out['inside'][key] = out['inside'].get(key, 0) + 1
            out['distinct'].add((o['kind'], o['inside'], o['n_completed'] > 0,
                                 cls in ('absent', 'unreadable'),
                                 cls == o['last'], cls == o['next']))
            if cls_v is None:
                if why == 'ok':
                    out['ok'] += 1
                else:
                    out['tolerated'] += 1
            else:
                out['classes'][cls_v] = out['classes'].get(cls_v, 0) + 1
                if len(out['found']) < 4:
                    out['found'].append(dict(n=o['n'], torn=None, cls=cls_v,
                                             msg=why, op=o['kind'],
                                             inside=o['inside'],
                                             n_completed=o['n_completed']))
            # torn variant: the killed write had moved only its first pages
            if r['kind'] == e2.K_WRITE and r['len'] > PAGE:
                pages = (r['len'] - 1) // PAGE
                m = PAGE * rng.randrange(1, pages + 1)
                import copy
                saved = {k: bytearray(v) for k, v in fs.inodes.items()}
                saved_names = dict(fs.names)
                saved_fds = dict(fs.fds)
                fs.apply(r, torn=m)
                cls = e2.classify(fs.content(ckpt))
                cls_v, why = e2.verdict_for(cls, o)
                fs.inodes, fs.names, fs.fds = saved, saved_names, saved_fds
                out['torn_points'] += 1
                if cls_v is not None:
                    k2 = cls_v + ':torn'
                    out['classes'][k2] = out['classes'].get(k2, 0) + 1
                    if len(out['found']) < 4:
                        out['found'].append(dict(
                            n=o['n'], torn=m, cls=cls_v, msg=why + ' (torn '
                            'write: first {} of {} bytes)'.format(m,
                                                                  r['len']),
                            op=o['kind'], inside=o['inside'],
                            n_completed=o['n_completed']))
                elif why == 'ok':
                    out['ok'] += 1
                else:
                    out['tolerated'] += 1
        if o is not None and o['n'] >= n1:
            break
        fs.apply(r)
    out['distinct'] = sorted(out['distinct'])
    return out


def real_kill(args):
    """Kill a real child before operation n; compare what it leaves with the
    model; then let a fresh child resume and finish."""
    info, n, torn = args[:3]
    identical = len(args) > 3 and args[3] == 'identical'
    d = tempfile.mkdtemp(prefix='kill{}-'.format(n), dir=info['dir'])
    work = os.path.join(d, 'work')
    os.makedirs(work)
    out = dict(n=n, torn=torn, i=info['i'])
    try:
        rc, res, txt = e2.run_child(info['cfg_path'], work, 'stop',
                                    os.path.join(d, 'stop.json'), stop_at=n,
                                    torn=torn)
        if rc != 137:
            out.update(status='harness', error='child killed before '
                       'operation {} exited with {}: {}'.format(n, rc,
                                                               txt[-300:]))
            return out
        # model prefix (paths differ by directory only)
        recs = e2.parse_log(info['log'])
        fs = e2.FS()
        for r in recs:
            if r['kind'] in e2.COUNTED and r['index'] >= n:
                if r['index'] == n and torn and r['kind'] == e2.K_WRITE:
                    fs.apply(r, torn=torn)
                break
            fs.apply(r)
        model = {os.path.basename(k): v for k, v in fs.listing().items()}
        real = {}
        for name in sorted(os.listdir(work)):
            with open(os.path.join(work, name), 'rb') as f:
                real[name] = f.read()
        if model != real:
            out.update(status='harness', error='disk model differs from the '
                       'directory left by a real kill before operation {}: '
                       'model {} real {}'.format(
                           n, {k: len(v) for k, v in model.items()},
                           {k: len(v) for k, v in real.items()}))
            return out
        ops, completed = e2.annotate(recs)
        o = ops[n - 1]
        cls = e2.classify(real.get('ckpt.h5'))
        cls_v, why = e2.verdict_for(cls, o)
        out['classification'] = cls if cls in ('absent', 'unreadable') \
            else 'readable'
        if cls_v is not None:
            out.update(status='violation', cls=cls_v, msg=why + ' (real '
                       'kill before operation {} = {} in {})'.format(
                           n, o['kind'], o['inside']))
            return out
        if why.startswith('tolerated') and cls == 'unreadable':
            out['status'] = 'ok_tolerated'
            return out
        rc, res, txt = e2.run_child(info['cfg_path'], work, 'resume',
                                    os.path.join(d, 'resume.json'),
                                    shim=False)
        if rc != 0 or res is None:
            out.update(status='harness', error='resume child failed: ' +
                       txt[-300:])
            return out
        if res.get('status') != 'ok':
            out.update(status='violation', cls='resume_failed',
                       msg='after a real kill before operation {} ({} in {}) '
                       're-running the script raised {}'.format(
                           n, o['kind'], o['inside'], res.get('error')))
            return out
        out['resumed_result_equals_uninterrupted'] = (
            res['result'] == info['result'])
        if identical and res['result'] != info['result']:
            out.update(status='violation', cls='resume_differs',
                       msg='after a real kill before operation {} ({} in {}) '
                       'the resumed run ends with a different result than '
                       'the uninterrupted one'.format(n, o['kind'],
                                                      o['inside']))
            return out
        out['status'] = 'ok'
        return out
    finally:
        shutil.rmtree(d, ignore_errors=True)


class MonDigest(e1.Monitor):
    """Logical content of the checkpoint after every completed write."""
    prop = PROP

    def attach(self, world):
        self.completed = []

    def on_event(self, world, tag, info):
        if tag == 'post_write':
            try:
                d, _ = digest.h5_file_logical(world.filepath)
            except Exception as e:
                d = 'EXC:' + type(e).__name__
            self.completed.append(d)


def exception_kill(args):
    """Process death delivered as an exception inside a checkpoint write
    (SIGINT / a SIGTERM handler that raises): the stack unwinds, context
    managers run.  The checkpoint must still be the last completed state and
    a new sampler must resume into a valid computation."""
    tier, seed, i = args
    import numpy as np
    import warnings
    warnings.simplefilter('ignore')
    np.seterr(all='ignore')
    from engines import e1_monitors as mon
    rng = R.run_rng(PROP, tier, seed, i, 'exc')
    cfg = draw_cfg(rng)
    out = dict(i=i, cfg=cfg)
    twin = e1.run_twin(cfg, wall=30)
    if twin['status'] != 'ok':
        out['status'] = 'discarded'
        return out
    B = max(1, twin['batches'])
    r = rng.choice([0, 0, 1, rng.randrange(0, B), rng.randrange(0, B)])
    ops = ([['run', r]] if r else []) + [
        ['kill_in_write', rng.choice([1, 1, 2, 3]),
         rng.choice([1, 2, 3, 5, 8, 13, 21, 34])]]
    out['ops'] = ops
    e1.install_clock()
    scratch = tempfile.mkdtemp(prefix='verif-c06x-', dir=env.scratch_root())
    try:
        md = MonDigest()
        world = e1.World(cfg, scratch, [md], tag='ckpt')
        world.new_sampler('fresh')
        killed = None
        for op in ops:
            killed = world.apply(list(op))
        if killed != 'killed':
            out['status'] = 'not_reached'
            return out
        ek = getattr(world, 'last_exc_kill', {})
        out['where'] = dict(kind=ek.get('kind'), call=ek.get('count'),
                            completed=len(md.completed))
        image = None
        if os.path.exists(world.filepath):
            with open(world.filepath, 'rb') as f:
                image = f.read()
        cls = e2.classify(image)
        o = dict(last=(md.completed[-1] if md.completed else None),
                 next=None, n_completed=len(md.completed))
        cls_v, why = e2.verdict_for(cls, o)
        if cls_v is not None:
            out.update(status='violation', cls=cls_v + '_after_exception',
                       msg=why + ' (the process died through an exception '
                       'raised at HDF5 call {} of a {} write, {} checkpoints '
                       'had been completed)'.format(
                           ek.get('count'), ek.get('kind'),
                           len(md.completed)))
            return out
        if why.startswith('tolerated') and cls == 'unreadable':
            out['status'] = 'ok_tolerated'
            return out
        # re-running the script must continue a valid computation
        try:
            world.monitors = [mon.MonC01()]
            for m in world.monitors:
                m.attach(world)
            world.new_sampler('kill')
            world.apply(['finish'])
        except e1.Violation as v:
            out.update(status='violation', cls='resume_invalid_after_'
                       'exception', msg='after an exception-kill in a {} '
                       'write the resumed run violates {}: {}'.format(
                           ek.get('kind'), v.cls, v.msg))
            return out
        except Exception as e:
            out.update(status='violation', cls='resume_failed_after_'
                       'exception', msg='after an exception-kill at HDF5 '
                       'call {} of a {} write re-running the script raised '
                       '{}: {}'.format(ek.get('count'), ek.get('kind'),
                                       type(e).__name__, e))
            return out
        out['status'] = 'ok'
        return out
    finally:
        shutil.rmtree(scratch, ignore_errors=True)


def main(argv=None):
    ap = argparse.ArgumentParser()
    ap.add_argument('--replay')
    ap.add_argument('--runs', type=int)
    ap.add_argument('--kills', type=int)
    args = ap.parse_args(argv)
    tier, seed = env.tier(), env.seed()
    t0 = time.time()
    try:
        e2.ensure_shim()
    except Exception as e:
        report.say('HARNESS-ERROR: cannot build the interposer: {}'.format(e))
        return env.EXIT_HARNESS
    workers = env.n_workers()
    root = tempfile.mkdtemp(prefix='verif-c06-', dir=env.scratch_root())
    try:
        if args.replay:
            with open(args.replay) as f:
                payload = json.load(f)
            c = payload['case']
            if c.get('engine') == 'e1':
                # regenerate the same case from its run index
                r = exception_kill((tier, payload.get('seed', seed),
                                    c['i']))
                report.say('replay of {}: {}'.format(args.replay,
                                                     r.get('status')))
                if r.get('status') == 'violation':
                    report.say('VIOLATION property={} replay={}'.format(
                        PROP, args.replay))
                    report.say('  class={} {}'.format(r['cls'], r['msg']))
                    return env.EXIT_VIOLATION
                report.say('no longer reproduces')
                return env.EXIT_OK
            info = record_run((tier, seed, 0, root, c['cfg']))
            if info['status'] != 'ok':
                report.say('HARNESS-ERROR: {}'.format(info.get('error')))
                return env.EXIT_HARNESS
            r = real_kill((info, c['n'], c.get('torn')))
            report.say('replay of {}: real kill before operation {}: '
                       '{}'.format(args.replay, c['n'], r.get('status')))
            if r.get('status') == 'violation':
                report.say('VIOLATION property={} replay={}'.format(
                    PROP, args.replay))
                report.say('  class={} {}'.format(r['cls'], r['msg']))
                return env.EXIT_VIOLATION
            if r.get('status') == 'harness':
                report.say('HARNESS-ERROR: ' + r['error'])
                return env.EXIT_HARNESS
            report.say('no longer reproduces')
            return env.EXIT_OK
        return run_check(args, tier, seed, root, workers, t0)
    except orchestrator.HarnessError as e:
        report.say('HARNESS-ERROR: {}'.format(e))
        return env.EXIT_HARNESS
    finally:
        shutil.rmtree(root, ignore_errors=True)


def run_check(args, tier, seed, root, workers, t0):
    n_runs = args.runs or int(os.environ.get('VERIF_RUNS', 0)) or dict(
        quick=8, thorough=64)[tier]
    n_kills = args.kills or int(os.environ.get('VERIF_KILLS', 0)) or dict(
        quick=32, thorough=320)[tier]
    verdict = report.Verdict(PROP)
    infos = orchestrator.run_parallel(
        record_run, [(tier, seed, i, root, None) for i in range(n_runs)],
        workers=workers, hard_wall=600)
    good = []
    for info in infos:
        if info['status'] == 'unmodelled':
            report.say('HARNESS-ERROR: unmodelled I/O in run {}: {}'.format(
                info['i'], info['error']))
            return env.EXIT_HARNESS
        if info['status'] != 'ok':
            report.say('  note: recorded run {} failed: {}'.format(
                info['i'], info.get('error')))
            continue
        good.append(info)
    if len(good) < max(1, n_runs // 2):
        report.say('HARNESS-ERROR: only {} of {} recorded runs '
                   'completed'.format(len(good), n_runs))
        return env.EXIT_HARNESS
    # every operation of every run is a crash point
    tasks = []
    for info in good:
        n = info['n_ops']
        chunk = max(50, (n + 2 * workers - 1) // (2 * workers))
        for a in range(1, n + 1, chunk):
            tasks.append((info, (info['log'], info['ckpt'], a,
                                 min(n + 1, a + chunk), seed * 1000003 + a)))
    outs = orchestrator.run_parallel(scan_chunk, [t[1] for t in tasks],
                                     workers=workers, hard_wall=900)
    tot = dict(points=0, torn_points=0, ok=0, tolerated=0)
    classes, inside = {}, {}
    distinct = set()
    found = []
    for (info, _), o in zip(tasks, outs):
        for k in tot:
            tot[k] += o[k]
        for k, v in o['classes'].items():
            classes[k] = classes.get(k, 0) + v
        for k, v in o['inside'].items():
            inside[k] = inside.get(k, 0) + v
        distinct |= set(tuple(x) for x in o['distinct'])
        for f in o['found']:
            found.append((info, f))
    # real kills: a seeded sample of crash points, biased to writes in
    # progress after the first checkpoint
    krng = R.run_rng(PROP, tier, seed, 0, 'kills')
    kills = []
    for j in range(n_kills):
        info = good[j % len(good)]
        n = krng.randrange(1, info['n_ops'] + 1)
        kills.append((info, n, None))
    # plus every model finding's smallest index per class, for confirmation
    firsts = {}
    for info, f in found:
        key = f['cls'] + (':torn' if f['torn'] else '')
        if key not in firsts or (f['n'], info['i']) < (
                firsts[key][1]['n'], firsts[key][0]['i']):
            firsts[key] = (info, f)
    confirm = [(info, f['n'], f['torn']) for info, f in firsts.values()]
    kres = orchestrator.run_parallel(real_kill, kills + confirm,
                                     workers=workers, hard_wall=900)
    kstat = {}
    for r in kres:
        kstat[r['status']] = kstat.get(r['status'], 0) + 1
        if r['status'] == 'harness':
            report.say('HARNESS-ERROR: ' + r['error'])
            return env.EXIT_HARNESS
    reported = set()
    by_run = {info['i']: info for info in good}
    for r in kres[:len(kills)]:
        if r['status'] == 'violation' and r['cls'] not in reported:
            reported.add(r['cls'])
            info = by_run[r['i']]
            case = dict(cfg=info['cfg'], n=r['n'], torn=r['torn'])
            v = dict(prop=PROP, cls=r['cls'], msg=r['msg'], detail={})
            path = report.write_replay(PROP, seed, '{}-{}'.format(
                info['i'], r['n']), dict(case=case, violation=v))
            verdict.add_violation(v, path, case)
    for (info, f), r in zip(firsts.values(), kres[len(kills):]):
        if f['cls'] in reported:
            continue
        reported.add(f['cls'])
        confirmed = r['status'] == 'violation'
        case = dict(cfg=info['cfg'], n=f['n'], torn=f['torn'])
        v = dict(prop=PROP, cls=f['cls'],
                 msg='{} (kill before operation {} = {} in {}; {} such crash '
                 'points in this batch; real kill {})'.format(
                     f['msg'], f['n'], f['op'], f['inside'],
                     classes.get(f['cls'], 0),
                     'confirms' if confirmed else 'gave ' + r['status']),
                 detail=dict(f))
        if not confirmed:
            report.say('HARNESS-ERROR: the disk model reports {} at operation '
                       '{} of run {} but a real kill there gives {}'.format(
                           f['cls'], f['n'], info['i'], r['status']))
            return env.EXIT_HARNESS
        path = report.write_replay(PROP, seed, '{}-{}'.format(
            info['i'], f['n']), dict(case=case, violation=v))
        verdict.add_violation(v, path, case)

    # process death delivered as an exception inside a write
    import nautilus  # noqa: F401
    n_exc = dict(quick=48, thorough=600)[tier]
    xres = orchestrator.run_parallel(
        exception_kill, [(tier, seed, i) for i in range(n_exc)],
        workers=workers, hard_wall=600)
    xstat = {}
    xwhere = {}
    for r in xres:
        xstat[r['status']] = xstat.get(r['status'], 0) + 1
        if 'where' in r:
            k = '{} write'.format(r['where']['kind'])
            xwhere[k] = xwhere.get(k, 0) + 1
        if r['status'] == 'violation' and r['cls'] not in reported:
            reported.add(r['cls'])
            case = dict(engine='e1', cfg=r['cfg'], ops=r['ops'], i=r['i'])
            v = dict(prop=PROP, cls=r['cls'], msg=r['msg'], detail={})
            path = report.write_replay(PROP, seed, 'x{}'.format(r['i']),
                                       dict(case=case, violation=v))
            verdict.add_violation(v, path, case)
    wall = time.time() - t0
    n_points = tot['points'] + tot['torn_points']
    probes = {}
    for info in good:
        for k, v in (info.get('probes') or {}).items():
            probes[k] = probes.get(k, 0) + v
    coverage = dict(
        evaluations=n_points + len(kres) + len(xres),
        distinct_nontrivial=len(distinct),
        rule=('for each of {} recorded checkpointed runs (seeded '
              'configurations: networks 0/1, blobs, periodic; covering first '
              'batch, bound insertions, end of exploration and sampling '
              'phase) EVERY file-mutating system call on the checkpoint and '
              'its temporary file (open-create/truncate, write, pwrite, '
              'ftruncate, unlink, rename, sendfile/copy_file_range) is a '
              'crash point - exhaustive within a run, runs are sampled; for '
              'every pwrite larger than a page additionally one torn variant '
              '(only the first m pages transferred).  The file a kill would '
              'leave is rebuilt from the operation log prefix, read with the '
              'real h5py and compared with the logical content recorded after '
              'each completed checkpoint.  A seeded sample of crash points is '
              'validated with real kills (_exit before operation n): the '
              'directory must equal the model byte for byte and a fresh '
              'process resuming from it must reach the result of the '
              'uninterrupted run.  Non-trivial and distinct: distinct '
              '(operation kind, enclosing write kind, first checkpoint '
              'completed?, file missing/unreadable?, equals last state?, '
              'equals next state?) combinations reached.').format(len(good)),
        samples=[dict(run=i['i'], operations=i['n_ops'],
                      completed_checkpoints=i['n_completed'],
                      kinds=i['kinds'], bytes_written=i['bytes_written'],
                      final_file_size=i['final_size'], n_like=i['n_like'],
                      explored=i['explored'],
                      lik=i['cfg']['lik']['family'],
                      blob=i['cfg']['lik']['blob'],
                      n_networks=i['cfg']['sampler']['n_networks'],
                      periodic=i['cfg']['sampler']['periodic'])
                 for i in good[:4]],
        exhaustive=False,
        recorded_runs=len(good),
        crash_points=tot['points'], torn_crash_points=tot['torn_points'],
        crash_points_ok=tot['ok'],
        crash_points_tolerated_before_first_checkpoint=tot['tolerated'],
        model_findings_by_class=classes,
        crash_points_by_position=inside,
        real_kills=len(kres), real_kill_outcomes=kstat,
        exception_kills_inside_writes=xstat,
        exception_kills_by_write_kind=xwhere,
        faults_fired=dict(kill_at_file_operation=tot['points'],
                          torn_write=tot['torn_points'],
                          real_exit_before_operation=len(kres),
                          exception_raised_inside_write=xstat.get('ok', 0) +
                          xstat.get('ok_tolerated', 0) +
                          xstat.get('violation', 0)),
        probes=probes,
        runs_per_hour=round(n_points / max(wall, 1e-9) * 3600),
        components=dict(
            real=['nautilus from the tree under test', 'h5py + libhdf5 sec2 '
                  'driver down to libc', 'tmpfs', 'real process death '
                  '(_exit(137)) and real resume in the validation step'],
            stub=['in the enumeration step only: the file system (prefix '
                  'replay of the recorded operation log, validated byte for '
                  'byte against real kills)', 'user likelihood/prior '
                  '(workload library)', 'time() pinned inside the shim']),
        known_findings_matched=len(verdict.known))
    report.write_evidence(
        PROP, 'fault_enumeration', coverage, wall,
        violations=len(verdict.violations),
        assumptions=['a killed process loses nothing that a completed system '
                     'call wrote (page cache survives a kill); power loss is '
                     'out of scope of the statement',
                     'SIGKILL can tear a large write at page granularity'])
    report.say('{} {}: {} runs, {} crash points + {} torn; ok {} tolerated {} '
               'findings {}; real kills {}; exception kills {} {}; '
               '{:.0f} s'.format(
                   PROP, tier, len(good), tot['points'], tot['torn_points'],
                   tot['ok'], tot['tolerated'], classes, kstat, xstat,
                   xwhere, wall))
    if verdict.violations:
        return env.EXIT_VIOLATION
    if len(distinct) < 2:
        report.say('HARNESS-ERROR: nothing was decided')
        return env.EXIT_HARNESS
    return env.EXIT_OK

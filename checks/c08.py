"""C08 - proposals are uniform over the bound and reported volumes are
calibrated (serial, pool, after a round trip); conservation of the proposal
counters."""
from checks import e3_driver


class SpecC08(e3_driver.Spec):
    prop = 'C08'
    props = ('C08', )
    classes = ['Union', 'Union', 'NautilusBound', 'NautilusBound',
               'Ellipsoid', 'Mixture']
    profile = dict(max_len=5, w_split=4, w_trim=1, w_sample=3, w_restart=1,
                   w_update=0, w_pool=3, w_split_many=2)
    chunk = 4
    d_max = 4
    runs = dict(quick=480, thorough=8000)
    clouds = ['blob', 'two', 'three', 'elongated', 'curved', 'face', 'corner',
              'wrapped', 'many']
    rule = ('one case = a Union or NautilusBound (also Ellipsoid/mixture for '
            'the closed-form volume) from a seeded point cloud (d 2-4, so '
            'that a uniform reference sample is affordable) and a history '
            'mixing splits, serial sampling, pool sampling (1-8 workers) and '
            'round trips, ended by a statistical test on 20 000 points '
            'handed out serially, through a pool or after a round trip.  '
            'Oracles: (a) exact conservation after every operation - '
            'accepted proposals = cache + points handed out (counted by the '
            'harness at the sample methods), pool merges add exactly the '
            'workers\' counters at both levels, counters survive a round '
            'trip; (b) uniformity - against uniform points filtered through '
            'the same contains(): exact hypergeometric test per cell '
            '(points inside several members; 6 random half-spaces), alarm '
            'below 1e-12; (c) volume - Clopper-Pearson intervals at 1e-12 of '
            'the true measure and of the bound\'s own acceptance fraction '
            'must overlap; (d) closed-form ellipsoid volume equals the '
            'determinant of the matrix contains() uses.  Non-trivial: the '
            'statistical test ran with >=1 test cell.  Distinct: distinct '
            '(class, options, operation sequence, sampling path).')
    assumptions = ['statistical oracles are exact tests with threshold 1e-12 '
                   'per test: a false alarm on a correct tree is a <1e-9 '
                   'event per thorough batch',
                   'all draws come from the run PRNG: a verdict is a '
                   'deterministic function of VERIF_SEED']

    def finish_ops(self, rng, spec, ops):
        if spec['cls'] in ('Union', 'NautilusBound'):
            how = rng.choice(['serial', 'serial', 'restart'] + (
                ['pool', 'pool'] if spec['cls'] == 'NautilusBound' else []))
            from simkit import env
            n = 20000 if env.tier() == 'quick' else 80000
            ops = ops + [['stat', n, how]]
        return ops

    def nontrivial(self, case, r):
        st = r['stats'].get('stat')
        return bool(st) and st.get('tests', 0) > 0

    def signature(self, case, r):
        from simkit import digest
        return digest.digest([e3_driver.Spec.signature(self, case, r),
                              case['ops'][-1]])


def main(argv=None):
    return e3_driver.main(SpecC08(), argv)

"""C02 - log_z, n_eff and weights are exactly the estimators of the stored
samples; per-shell bookkeeping stays aligned."""
from checks import e1_driver
from engines import e1_monitors as mon


class SpecC02(e1_driver.Spec):
    prop = 'C02'
    monitor = mon.MonC02
    profile = dict(
        p_pool_l=0.15, p_pool_s=0.15, p_frequent_bounds=0.2,
        family=None,
        fault_kinds=['stop_resume', 'stop_resume', 'kill', 'kill',
                     'kill_in_write', 'slice',
                     'toggle', 'toggle', 'toggle', 'timeout', 'observe'])
    runs = dict(quick=80, thorough=1500)
    budget = dict(quick=120, thorough=1500)
    rule = ('cases as for C01 plus discard_exploration toggles at arbitrary '
            'batch boundaries and likelihoods with -inf regions; after every '
            'add_bound, add_samples, run() return, resume and toggle the '
            'harness recomputes, from the stored arrays, the bound volumes '
            'and its OWN tally of proposals per shell (counted at the '
            'bounds\' sample methods, rolled back on a kill), the shell '
            'volumes, log_z, the posterior weights and the Kish n_eff and '
            'compares (1e-9 in log, 1e-8 relative for n_eff).  Non-trivial: '
            'the history completed with at least one stop/kill/toggle fired '
            'AND transfers applied > 0.  Distinct: distinct state-signature '
            'sequences.')
    assumptions = [
        'eta is not compared: the statement defines volumes, evidence, '
        'weights and n_eff',
        'when every stored likelihood is zero (log_z = -inf) weights and '
        'n_eff are undefined and skipped (counted)']

    def nontrivial(self, r):
        f = r.get('faults') or {}
        p = r.get('probes') or {}
        fired = sum(f.get(k, 0) for k in ('stop_resume', 'kill', 'toggle',
                                         'kill_in_write'))
        return fired > 0 and p.get('transfers_applied', 0) > 0

    def monitor_stats(self, m):
        return dict(oracle_evaluations=m.n_checks,
                    neg_inf_samples_seen=m.neg_inf_seen,
                    skipped_zero_evidence=m.skipped_zero_z)


def main(argv=None):
    return e1_driver.main(SpecC02(), argv)

"""Generic driver for the monitor-based sampler-history checks
(C01 C02 C03 C10 C12): seeded generation, parallel execution, minimisation,
replay, evidence."""

import argparse
import copy
import json
import os
import sys
import time

from simkit import env, report, orchestrator, rng as R, digest
from engines import e1_sampler as e1
from engines import e1_monitors as mon

RUN_WALL = 30        # s per simulated run before it is discarded as too slow
HARD_WALL = 400      # s per task before the worker is declared dead


class Spec:
    """What distinguishes one property check from another."""
    prop = None
    monitor = None            # Monitor class
    profile = {}              # biases for configuration/history drawing
    runs = dict(quick=96, thorough=1200)
    budget = dict(quick=150, thorough=1500)   # s for the generation phase
    sut_exception_is_violation = False
    level = 'exploration'
    rule = ''
    assumptions = []

    def nontrivial(self, r):
        """r: per-history result dict.  Did the run reach what the property
        is about, with at least one fault fired?"""
        return bool(r.get('faults'))

    def monitor_stats(self, m):
        return {}

    def extra_ops(self, rng, cfg, ops):
        return ops


def _make_case(spec, prop, tier, seed, i):
    rng = R.run_rng(prop, tier, seed, i)
    cfg = e1.draw_cfg(rng, spec.profile)
    return rng, cfg


def _run_one(args):
    spec, tier, seed, i = args
    mon.install_taps()
    prop = spec.prop
    rng, cfg = _make_case(spec, prop, tier, seed, i)
    out = dict(i=i, cfg=cfg, twin=None, hist=None)
    # fault-free twin (itself a history: one uninterrupted run), monitored
    m = spec.monitor()
    twin = e1.execute(dict(cfg=cfg, ops=[['finish']], tag='twin'), [m],
                      wall=RUN_WALL)
    out['twin'] = _slim(twin, [['finish']], spec, m)
    if twin['status'] != 'ok' or not twin.get('last_ret') or twin.get(
            'hit_cap'):
        return out
    ops = e1.draw_history(rng, cfg, twin['timeline'], spec.profile,
                          twin.get('probes'))
    ops = spec.extra_ops(rng, cfg, ops)
    m = spec.monitor()
    res = e1.execute(dict(cfg=cfg, ops=ops, tag='hist'), [m],
                     wall=RUN_WALL * 2)
    out['hist'] = _slim(res, ops, spec, m)
    return out


def _slim(res, ops, spec, m):
    keep = ('status', 'violation', 'error', 'where', 'in_nautilus',
            'traceback', 'events_digest', 'n_events', 'faults', 'probes',
            'pool', 'rows', 'sim_seconds', 'sig_seq', 'batches', 'result',
            'last_ret', 'hit_cap', 'op_index')
    out = {k: res.get(k) for k in keep}
    out['n_signatures'] = len(res.get('signatures', []))
    out['ops'] = ops
    out['monitor'] = spec.monitor_stats(m)
    return out


def _replay_case(args):
    spec, case = args
    mon.install_taps()
    m = spec.monitor()
    res = e1.execute(case, [m], wall=RUN_WALL * 3)
    return dict(status=res['status'], violation=res.get('violation'),
                error=res.get('error'), in_nautilus=res.get('in_nautilus'),
                traceback=res.get('traceback'),
                events_digest=res.get('events_digest'))


def _failure_class(spec, r):
    """Violation class of a replay result, or None."""
    if r['status'] == 'violation':
        return r['violation']['cls']
    if (r['status'] == 'sut_exception' and spec.sut_exception_is_violation
            and r.get('in_nautilus')):
        return 'exception'
    return None


def minimise(spec, case, cls, budget_s=90, workers=16):
    """Delta debugging on the operation list, then a fixed simplification
    lattice on the configuration, keeping the same violation class."""
    t0 = time.time()
    best = copy.deepcopy(case)

    def still(cands):
        if not cands:
            return None
        res = orchestrator.run_parallel(
            _replay_case, [(spec, c) for c in cands], workers=workers,
            hard_wall=HARD_WALL)
        for c, r in zip(cands, res):
            if r is not None and _failure_class(spec, r) == cls:
                return c
        return None

    # 1. drop operations (one at a time, all candidates in parallel)
    changed = True
    while changed and time.time() - t0 < budget_s:
        changed = False
        ops = best['ops']
        cands = []
        for j in range(len(ops)):
            c = copy.deepcopy(best)
            c['ops'] = ops[:j] + ops[j + 1:]
            if c['ops']:
                cands.append(c)
        got = still(cands)
        if got is not None:
            best = got
            changed = True
    # 2. shrink integers in the remaining operations
    if time.time() - t0 < budget_s:
        cands = []
        for j, op in enumerate(best['ops']):
            if op[0] == 'run' and op[1] > 1:
                for k in (1, op[1] // 2):
                    c = copy.deepcopy(best)
                    c['ops'][j] = ['run', k]
                    cands.append(c)
            if op[0] == 'kill' and op[2] > 0:
                c = copy.deepcopy(best)
                c['ops'][j] = ['kill', op[1], 0, op[3]]
                cands.append(c)
        got = still(cands)
        if got is not None:
            best = got
    # 3. simplify the configuration along a fixed lattice
    steps = [
        ('pool_l', None), ('pool_s', None),
        ('sampler.n_networks', 0), ('sampler.periodic', None),
        ('lik.blob', 'none'), ('lik.vectorized', False),
        ('sampler.n_update', None), ('sampler.n_like_new_bound', None),
        ('sampler.n_points_min', None), ('sampler.split_threshold', 100),
        ('sampler.enlarge_per_dim', 1.1), ('cost', 0.0),
        ('run.n_shell', 1), ('run.n_eff', 0), ('run.discard_exploration',
                                               False),
    ]
    for path, val in steps:
        if time.time() - t0 > budget_s:
            break
        c = copy.deepcopy(best)
        d = c['cfg']
        keys = path.split('.')
        for k in keys[:-1]:
            d = d[k]
        if d.get(keys[-1]) == val:
            continue
        d[keys[-1]] = val
        if keys[-1] == 'blob':
            pass
        got = still([c])
        if got is not None:
            best = got
    return best


def summarise(spec, results, tier, seed):
    n_twin = n_hist = 0
    status = {}
    faults, probes, pool = {}, {}, {}
    sigseqs = set()
    nontriv = set()
    sim_s = 0.0
    rows = 0
    samples = []
    monitor_tot = {}
    aborted = 0
    for out in results:
        if out is None:
            continue
        for which in ('twin', 'hist'):
            r = out.get(which)
            if r is None:
                continue
            if which == 'twin':
                n_twin += 1
            else:
                n_hist += 1
            status[which + ':' + r['status']] = status.get(
                which + ':' + r['status'], 0) + 1
            if r['status'] == 'sut_exception':
                aborted += 1
            for table, src in ((faults, r.get('faults')),
                               (probes, r.get('probes')),
                               (pool, r.get('pool'))):
                for k, v in (src or {}).items():
                    table[k] = table.get(k, 0) + v
            for k, v in (r.get('monitor') or {}).items():
                monitor_tot[k] = monitor_tot.get(k, 0) + v
            sim_s += r.get('sim_seconds') or 0.0
            rows += r.get('rows') or 0
            if r['status'] == 'ok' and r.get('sig_seq'):
                sigseqs.add(r['sig_seq'])
                if which == 'hist' and spec.nontrivial(r):
                    nontriv.add(r['sig_seq'])
                    if len(samples) < 3:
                        samples.append(dict(
                            run=out['i'], ops=r['ops'],
                            lik=out['cfg']['lik']['family'],
                            blob=out['cfg']['lik']['blob'],
                            n_batch=out['cfg']['sampler']['n_batch'],
                            n_live=out['cfg']['sampler']['n_live'],
                            n_networks=out['cfg']['sampler']['n_networks'],
                            pools=[out['cfg']['pool_l'],
                                   out['cfg']['pool_s']],
                            faults=r.get('faults'), probes=r.get('probes')))
    return dict(n_twin=n_twin, n_hist=n_hist, status=status, faults=faults,
                probes=probes, pool=pool, distinct_histories=len(sigseqs),
                distinct_nontrivial=len(nontriv), sim_seconds=sim_s,
                rows=rows, samples=samples, monitor=monitor_tot,
                aborted=aborted)


def main(spec, argv=None):
    ap = argparse.ArgumentParser()
    ap.add_argument('--replay')
    ap.add_argument('--runs', type=int)
    ap.add_argument('--budget', type=float)
    ap.add_argument('--no-minimise', action='store_true')
    args = ap.parse_args(argv)
    prop = spec.prop
    tier, seed = env.tier(), env.seed()
    t0 = time.time()
    import nautilus  # noqa: F401  import before forking
    import sklearn.mixture  # noqa: F401
    import sklearn.neural_network  # noqa: F401
    import h5py  # noqa: F401
    mon.install_taps()

    if args.replay:
        with open(args.replay) as f:
            payload = json.load(f)
        case = payload['case']
        r = _replay_case((spec, case))
        cls = _failure_class(spec, r)
        report.say('replay of {}: status={} class={}'.format(
            args.replay, r['status'], cls))
        if cls is not None:
            v = r['violation'] or dict(cls='exception', msg=r.get('error'))
            report.say('VIOLATION property={} replay={}'.format(
                prop, args.replay))
            report.say('  class={} {}'.format(v['cls'], v.get('msg')))
            return env.EXIT_VIOLATION
        report.say('no longer reproduces')
        return env.EXIT_OK

    n_runs = args.runs or int(os.environ.get('VERIF_RUNS', 0)) or \
        spec.runs[tier]
    budget = args.budget or float(os.environ.get('VERIF_BUDGET_S', 0)) or \
        spec.budget[tier]
    verdict = report.Verdict(prop)
    try:
        results = orchestrator.run_parallel(
            _run_one, [(spec, tier, seed, i) for i in range(n_runs)],
            workers=env.n_workers(), hard_wall=HARD_WALL, budget_s=budget)
    except orchestrator.HarnessError as e:
        report.say('HARNESS-ERROR: {}'.format(e))
        return env.EXIT_HARNESS

    summ = summarise(spec, results, tier, seed)
    done = [r for r in results if r is not None]
    # harness-level failures never pass silently
    for out in done:
        for which in ('twin', 'hist'):
            r = out.get(which)
            if r is not None and r['status'] == 'harness':
                report.say('HARNESS-ERROR: run {} {}: {}'.format(
                    out['i'], which, r.get('error')))
                return env.EXIT_HARNESS

    # violations: monitor verdicts, and (where the property promises a
    # result) exceptions raised by nautilus
    failing = []
    for out in done:
        for which in ('twin', 'hist'):
            r = out.get(which)
            if r is None:
                continue
            cls = _failure_class(spec, r)
            if cls is not None:
                failing.append((out, which, r, cls))
    reported = set()
    for out, which, r, cls in failing:
        if cls in reported and len(reported) >= 1 and cls != 'exception':
            continue
        key = (cls, (r.get('error') or '')[:60] if cls == 'exception' else '')
        if key in reported:
            continue
        reported.add(key)
        case = dict(cfg=out['cfg'], ops=r['ops'], tag=which)
        v = r['violation'] or dict(
            prop=prop, cls='exception',
            msg='nautilus raised {}'.format(r.get('error')),
            detail=dict(where=r.get('where')))
        small = case
        if not args.no_minimise:
            try:
                small = minimise(spec, case, cls,
                                 budget_s=60 if tier == 'quick' else 180,
                                 workers=env.n_workers())
            except orchestrator.HarnessError as e:
                report.say('note: minimisation aborted: {}'.format(e))
        path = report.write_replay(prop, seed, out['i'], dict(
            case=small, original_case=case, violation=v, which=which,
            events_digest=r.get('events_digest'),
            traceback=r.get('traceback')))
        verdict.add_violation(v, path, small)
        if len(reported) >= 5:
            break

    n_exec = summ['n_twin'] + summ['n_hist']
    abort_frac = summ['aborted'] / max(1, n_exec)
    wall = time.time() - t0
    coverage = dict(
        evaluations=n_exec,
        distinct_nontrivial=summ['distinct_nontrivial'],
        rule=spec.rule,
        samples=summ['samples'] or [dict(note='no non-trivial history '
                                         'completed in this run')],
        histories=summ['n_hist'], twins=summ['n_twin'],
        run_indices_requested=n_runs, run_indices_executed=len(done),
        status_counts=summ['status'],
        faults_fired=summ['faults'], probes=summ['probes'],
        pool=summ['pool'], monitor=summ['monitor'],
        distinct_state_signature_sequences=summ['distinct_histories'],
        simulated_seconds=round(summ['sim_seconds'], 1),
        likelihood_evaluations=summ['rows'],
        runs_per_hour=round(n_exec / max(wall, 1e-9) * 3600),
        aborted_by_sut_exception=summ['aborted'],
        components=report.COMPONENTS,
        known_findings_matched=len(verdict.known),
    )
    report.write_evidence(prop, spec.level, coverage, wall,
                          violations=len(verdict.violations),
                          assumptions=spec.assumptions)
    report.say('{} {}: {} twins + {} histories, {} distinct non-trivial, '
               'status {}, {:.0f} s'.format(
                   prop, tier, summ['n_twin'], summ['n_hist'],
                   summ['distinct_nontrivial'], summ['status'], wall))
    report.say('  faults fired: {}'.format(summ['faults']))
    report.say('  probes: {}'.format(summ['probes']))
    seen_err = set()
    for out in done:
        for which in ('twin', 'hist'):
            r = out.get(which)
            if r is not None and r['status'] == 'sut_exception':
                k = (r.get('error') or '')[:70]
                if k not in seen_err and len(seen_err) < 6:
                    seen_err.add(k)
                    report.say('  note: run {} {} aborted by {} (in '
                               'nautilus: {}) at {}'.format(
                                   out['i'], which, r.get('error'),
                                   r.get('in_nautilus'),
                                   (r.get('where') or [None])[-1]))
    if verdict.violations:
        return env.EXIT_VIOLATION
    if (not spec.sut_exception_is_violation and abort_frac > 0.2):
        report.say('HARNESS-ERROR: {:.0%} of the runs were aborted by an '
                   'exception inside nautilus; the workload cannot '
                   'run'.format(abort_frac))
        return env.EXIT_HARNESS
    if summ['distinct_nontrivial'] < 2:
        report.say('HARNESS-ERROR: fewer than 2 non-trivial histories '
                   'completed; nothing was decided')
        return env.EXIT_HARNESS
    return env.EXIT_OK

"""C10 - likelihood calls: exact count, one batch per step, budget and
support kept, run() return value."""
from checks import e1_driver
from engines import e1_monitors as mon


class SpecC10(e1_driver.Spec):
    prop = 'C10'
    monitor = mon.MonC10
    profile = dict(p_pool_l=0.4, p_pool_s=0.15,
                   fault_kinds=['stop_resume', 'kill', 'kill_in_write', 'slice',
                                'slice',
                                'timeout', 'timeout', 'timeout', 'run_to',
                                'run_to', 'run_to', 'toggle', 'toggle'])
    runs = dict(quick=96, thorough=1800)
    budget = dict(quick=130, thorough=1500)
    rule = ('cases as for C01 with histories rich in run(n_like_max=M) for '
            'arbitrary M (0, below the current count, not a multiple of the '
            'batch), run(timeout=T) under the simulated clock with per-call '
            'costs and stalled batches, stops, kills and resumes.  The '
            'recorder is ground truth: after every batch counter = stored '
            'count at the last resume + evaluations seen; every step '
            'evaluates exactly n_batch rows inside [0,1)^d; no batch starts '
            'at or beyond n_like_max or after the deadline; a run that '
            'returns False below n_like_max must have reached its deadline; '
            'the return value equals the success predicate on the public '
            'state.  Non-trivial: completed history with >=1 budget- or '
            'timeout-limited run that stopped early.  Distinct: distinct '
            'state-signature sequences.')
    assumptions = ['simulated time advances only through likelihood costs, '
                   'stalls and explicit clock jumps']

    def nontrivial(self, r):
        f = r.get('faults') or {}
        return (f.get('slice', 0) + f.get('timeout_slice', 0)) > 0

    def monitor_stats(self, m):
        return dict(batches_checked=m.n_checks, timeouts_hit=m.timeouts_hit,
                    zero_budget_runs=m.zero_budget_runs)

    def extra_ops(self, rng, cfg, ops):
        # sprinkle absolute budgets: 0, below the count, odd values
        nb = cfg['sampler']['n_batch']
        out = []
        for op in ops:
            if op[0] == 'finish' and rng.random() < 0.8:
                out.append(['run_to', rng.choice([0, 1, nb - 1, nb, nb + 1,
                                                  3 * nb + rng.randrange(nb + 1),
                                                  rng.randrange(1, 40 * nb)])])
                if rng.random() < 0.5:
                    out.append(['run_to', rng.randrange(0, 60 * nb)])
            out.append(op)
        return out


def main(argv=None):
    return e1_driver.main(SpecC10(), argv)

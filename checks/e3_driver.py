"""Generic driver for the bound-lifecycle checks (C07 C08 C09 C13)."""

import argparse
import copy
import json
import os
import time

from simkit import env, report, orchestrator, rng as R, digest
from engines import e3_bounds as e3


class Spec:
    prop = None
    props = ()
    classes = None
    profile = {}
    chunk = 20
    runs = dict(quick=1200, thorough=20000)
    budget = dict(quick=110, thorough=1400)
    rule = ''
    assumptions = []
    level = 'exploration'
    d_max = 8
    networks = None
    clouds = None

    def draw_case(self, rng):
        spec = e3.draw_bound_spec(rng, self.classes, self.d_max, self.clouds,
                                  self.networks,
                                  getattr(self, 'scale_ok', False))
        ops = e3.draw_ops(rng, spec, self.profile)
        return dict(bound=spec, ops=self.finish_ops(rng, spec, ops),
                    qseed=rng.randrange(2**31))

    def finish_ops(self, rng, spec, ops):
        return ops

    def nontrivial(self, case, r):
        return len(case['ops']) >= 2

    def signature(self, case, r):
        return digest.digest([case['bound']['cls'], case['bound']['member'],
                              case['bound']['unit'],
                              case['bound']['periodic'] is not None,
                              case['bound']['n_networks'],
                              [o[0] if o[0] != 'split' else o[:2]
                               for o in case['ops']]])


def _failure(spec, r):
    if r['status'] == 'violation' and r['violation']['prop'] == spec.prop:
        return r['violation']['cls']
    return None


def run_chunk(args):
    spec, tier, seed, c = args
    out = dict(c=c, n=0, status={}, failing=[], sigs=set(), ops={},
               samples=[], agg={}, by_class={}, errors=[], enumerated=0)
    enum = None
    if isinstance(c, tuple):         # ('enum', first, last)
        enum = spec.enumerated(tier)[c[1]:c[2]]
    for j in range(spec.chunk if enum is None else len(enum)):
        if enum is not None:
            i = 10**6 + c[1] + j
            case = enum[j]
            out['enumerated'] += 1
        else:
            i = c * spec.chunk + j
            rng = R.run_rng(spec.prop, tier, seed, i)
            case = spec.draw_case(rng)
        r = e3.execute(case, props=spec.props)
        out['n'] += 1
        st = r['status']
        if st == 'violation' and r['violation']['prop'] != spec.prop:
            st = 'other_property'
        out['status'][st] = out['status'].get(st, 0) + 1
        cn = case['bound']['cls']
        out['by_class'][cn] = out['by_class'].get(cn, 0) + 1
        for k, v in r['stats']['ops'].items():
            out['ops'][k] = out['ops'].get(k, 0) + v
        for k, v in r['stats'].items():
            if isinstance(v, int):
                out['agg'][k] = out['agg'].get(k, 0) + v
        if r['stats'].get('stat') and 'tests' in r['stats']['stat']:
            out['agg']['stat_tests'] = out['agg'].get('stat_tests', 0) + \
                r['stats']['stat']['tests']
            out['agg']['stat_cases'] = out['agg'].get('stat_cases', 0) + 1
            mp = r['stats']['stat'].get('min_p', 1.0)
            out['agg']['min_p'] = min(out['agg'].get('min_p', 1.0), mp)
        if _failure(spec, r) is not None:
            if len(out['failing']) < 10:
                out['failing'].append((i, case, r['violation']))
        elif st in ('harness', 'sut_exception'):
            if len(out['errors']) < 3:
                out['errors'].append((i, st, r.get('error'),
                                      r.get('traceback'), case))
        elif st == 'ok' and spec.nontrivial(case, r):
            out['sigs'].add(spec.signature(case, r))
            if len(out['samples']) < 1:
                out['samples'].append(dict(run=i, bound=case['bound'],
                                           ops=case['ops']))
    return out


def minimise(spec, case, cls, budget_s=60):
    t0 = time.time()
    best = copy.deepcopy(case)

    def fails(c):
        r = e3.execute(c, props=spec.props)
        return _failure(spec, r) == cls
    changed = True
    while changed and time.time() - t0 < budget_s:
        changed = False
        for j in range(len(best['ops'])):
            c = copy.deepcopy(best)
            c['ops'] = best['ops'][:j] + best['ops'][j + 1:]
            if fails(c):
                best, changed = c, True
                break
    for path, vals in [('n_networks', [0]), ('periodic', [None]),
                       ('n_points_min', [None]), ('enlarge', [1.1]),
                       ('split_threshold', [100])]:
        if time.time() - t0 > budget_s:
            break
        for v in vals:
            c = copy.deepcopy(best)
            if c['bound'].get(path) == v:
                continue
            if path == 'periodic' and c['bound']['cls'] == 'PhaseShift':
                continue
            c['bound'][path] = v
            if fails(c):
                best = c
    for key, vals in [('n', [40, 80]), ('d', [2, 3])]:
        for v in vals:
            if time.time() - t0 > budget_s:
                break
            c = copy.deepcopy(best)
            if c['bound']['cloud'][key] <= v:
                continue
            c['bound']['cloud'][key] = v
            if c['bound']['periodic']:
                c['bound']['periodic'] = [p for p in c['bound']['periodic']
                                          if p < c['bound']['cloud']['d']] \
                    or [0]
            try:
                if fails(c):
                    best = c
            except Exception:
                pass
    return best


def main(spec, argv=None):
    ap = argparse.ArgumentParser()
    ap.add_argument('--replay')
    ap.add_argument('--runs', type=int)
    args = ap.parse_args(argv)
    tier, seed = env.tier(), env.seed()
    t0 = time.time()
    import nautilus  # noqa: F401
    import sklearn.mixture  # noqa: F401
    import sklearn.neural_network  # noqa: F401
    import h5py  # noqa: F401
    import scipy.stats  # noqa: F401
    e3.install_taps()
    prop = spec.prop
    if args.replay:
        with open(args.replay) as f:
            payload = json.load(f)
        r = e3.execute(payload['case'], props=spec.props)
        cls = _failure(spec, r)
        report.say('replay of {}: status={} class={}'.format(
            args.replay, r['status'], cls))
        if cls is not None:
            report.say('VIOLATION property={} replay={}'.format(
                prop, args.replay))
            report.say('  class={} {}'.format(cls, r['violation']['msg']))
            return env.EXIT_VIOLATION
        if r['status'] in ('harness', 'sut_exception'):
            report.say(r.get('traceback') or '')
        report.say('no longer reproduces')
        return env.EXIT_OK
    n = args.runs or int(os.environ.get('VERIF_RUNS', 0)) or spec.runs[tier]
    budget = float(os.environ.get('VERIF_BUDGET_S', 0)) or spec.budget[tier]
    n_chunks = max(1, n // spec.chunk)
    verdict = report.Verdict(prop)
    chunks = list(range(n_chunks))
    n_enum = 0
    if hasattr(spec, 'enumerated'):
        n_enum = len(spec.enumerated(tier))
        chunks = [('enum', a, min(n_enum, a + spec.chunk))
                  for a in range(0, n_enum, spec.chunk)] + chunks
    try:
        outs = orchestrator.run_parallel(
            run_chunk, [(spec, tier, seed, c) for c in chunks],
            workers=env.n_workers(), hard_wall=900, budget_s=budget)
    except orchestrator.HarnessError as e:
        report.say('HARNESS-ERROR: {}'.format(e))
        return env.EXIT_HARNESS
    tot, status, ops, agg, by_class = 0, {}, {}, {}, {}
    enum_done = 0
    sigs, samples, failing, errors = set(), [], [], []
    for o in outs:
        if o is None:
            continue
        tot += o['n']
        enum_done += o.get('enumerated', 0)
        for table, src in ((status, o['status']), (ops, o['ops']),
                           (by_class, o['by_class'])):
            for k, v in src.items():
                table[k] = table.get(k, 0) + v
        for k, v in o['agg'].items():
            if k == 'min_p':
                agg[k] = min(agg.get(k, 1.0), v)
            else:
                agg[k] = agg.get(k, 0) + v
        sigs |= o['sigs']
        samples += o['samples']
        failing += o['failing']
        errors += o['errors']
    for i, st, err, tb, case in errors[:4]:
        report.say('  note: run {} ended with {}: {}'.format(i, st, err))
    harness = [e for e in errors if e[1] == 'harness']
    if harness:
        report.say('HARNESS-ERROR: exception outside nautilus in run {}:\n'
                   '{}'.format(harness[0][0], harness[0][3]))
        return env.EXIT_HARNESS
    failing.sort(key=lambda x: x[0])
    reported = set()
    for i, case, v in failing:
        # a listed known finding never hides an unlisted violation of the
        # same class: the two are de-duplicated separately
        key = (v['cls'], report.match_known(prop, v, case) is not None)
        if key in reported:
            continue
        reported.add(key)
        small = minimise(spec, case, v['cls'])
        v2 = e3.execute(small, props=spec.props).get('violation') or v
        path = report.write_replay(prop, seed, i, dict(
            case=small, original_case=case, violation=v2))
        verdict.add_violation(v2, path, small)
    wall = time.time() - t0
    coverage = dict(
        evaluations=tot, distinct_nontrivial=len(sigs), rule=spec.rule,
        samples=samples[:3] or [dict(note='none')],
        status_counts=status, operations_executed=ops, bound_classes=by_class,
        counters=agg,
        enumerated_sequences=dict(
            executed=enum_done, space=n_enum,
            complete=bool(n_enum and enum_done == n_enum)),
        runs_per_hour=round(tot / max(wall, 1e-9) * 3600),
        components=dict(
            real=['nautilus.bounds.* and nautilus.neural from the tree under '
                  'test', 'scikit-learn GaussianMixture / MLPRegressor',
                  'h5py + libhdf5 on tmpfs (storage round trips)',
                  'pickle (pool isolation)'],
            stub=['worker pool (SimPool with seeded task order; the harness '
                  'sees every worker copy)', 'threadpoolctl limits (no-op, '
                  'one thread pinned)']),
        known_findings_matched=len(verdict.known))
    report.write_evidence(prop, spec.level, coverage, wall,
                          violations=len(verdict.violations),
                          assumptions=spec.assumptions)
    report.say('{} {}: {} life cycles {} ops {} classes {}; {} distinct '
               'non-trivial; counters {}; {:.0f} s'.format(
                   prop, tier, tot, status, ops, by_class, len(sigs), agg,
                   wall))
    if verdict.violations:
        return env.EXIT_VIOLATION
    bad = status.get('sut_exception', 0)
    if bad > 0.2 * max(1, tot):
        report.say('HARNESS-ERROR: {} of {} life cycles were aborted by an '
                   'exception inside nautilus'.format(bad, tot))
        return env.EXIT_HARNESS
    if len(sigs) < 2:
        report.say('HARNESS-ERROR: nothing was decided')
        return env.EXIT_HARNESS
    return env.EXIT_OK

"""C12 - exploration ends once; then history is append-only; discard is a
pure view."""
from checks import e1_driver
from engines import e1_monitors as mon


class SpecC12(e1_driver.Spec):
    prop = 'C12'
    monitor = mon.MonC12
    profile = dict(p_pool_l=0.15, p_pool_s=0.15, p_frequent_bounds=0.2,
                   fault_kinds=['stop_resume', 'stop_resume', 'kill',
                                'kill_in_write', 'slice',
                                'toggle', 'toggle', 'toggle', 'toggle'])
    runs = dict(quick=80, thorough=1500)
    budget = dict(quick=120, thorough=1500)
    rule = ('cases as for C01 with discard_exploration requested in run() or '
            'not and toggled at arbitrary batch boundaries (before the end of '
            'exploration, right at it, in the sampling phase, after a '
            'resume).  Over successive snapshots: explored never goes back; '
            'bound fingerprints frozen; every shell array extends its '
            'previous content bit for bit and is non-empty.  At every toggle, '
            'run() return and resume after exploration the monitor toggles '
            'there and back: every statistic must be restored bit for bit; '
            'the discard=True view must show exactly the rows the recorder '
            'saw evaluated after exploration ended; both views must be the '
            'same on the live object and on the object resumed from its '
            'checkpoint.  Non-trivial: completed history with >=1 toggle or '
            'resume fired after exploration ended.  Distinct: distinct '
            'state-signature sequences.')
    assumptions = ['rows of a killed batch are lost with the process and '
                   're-evaluated identically after the restart']

    def nontrivial(self, r):
        f = r.get('faults') or {}
        m = r.get('monitor') or {}
        return (f.get('toggle', 0) + f.get('stop_resume', 0) +
                f.get('kill', 0) + f.get('kill_in_write', 0)) > 0 and m.get(
                    'toggle_checks', 0) > 0

    def monitor_stats(self, m):
        return dict(snapshots=m.n_checks, toggle_checks=m.toggle_checks,
                    view_rows_checked=m.view_rows_checked,
                    resume_view_checks=m.resume_view_checks)


def main(argv=None):
    return e1_driver.main(SpecC12(), argv)

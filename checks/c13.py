"""C13 - a union of ellipsoids stays well-formed under any split/trim/sample
order."""
from checks import e3_driver


class SpecC13(e3_driver.Spec):
    prop = 'C13'
    props = ('C13', )
    classes = ['Union']
    profile = dict(max_len=8, w_split=3, w_trim=3, w_sample=2, w_restart=0,
                   w_update=0)
    chunk = 25
    runs = dict(quick=2400, thorough=40000)
    d_max = 6
    rule = ('one case = a Union (Ellipsoid or cube-ellipsoid-mixture members, '
            'unit-restricted or not, n_points_min from d+1, enlargement 1.01-'
            '2) built from a seeded point cloud (one to three clusters, '
            'elongated, curved, at faces/corners, wrapped, filling; d 2-6) '
            'and a seeded history of up to 8 operations over {split(overlap '
            'allowed), split(no overlap), trim(threshold 0.5..1e3), '
            'sample(n)}; after every operation the real object is compared '
            'with a reference model of per-ellipsoid construction-point '
            'sets: equal record lengths, disjoint cover of the points not '
            'yet trimmed, successful split = partition of the parent with '
            '>= n_points_min points each and no increase of the summed '
            'volume, refused operation = no change, no operation raises.  '
            'Non-trivial: >=2 operations including a successful split or '
            'trim.  Distinct: distinct (member class, unit, operation '
            'sequence).')
    assumptions = ['split/trim are never applied to a read-back union (the '
                   'property is about unions built in memory)']

    def nontrivial(self, case, r):
        s = r['stats']
        return len(case['ops']) >= 2 and (s['splits_ok'] + s['trims_ok']) > 0


def main(argv=None):
    return e3_driver.main(SpecC13(), argv)

"""C13 - a union of ellipsoids stays well-formed under any split/trim/sample
order."""
from checks import e3_driver


class SpecC13(e3_driver.Spec):
    prop = 'C13'
    props = ('C13', )
    classes = ['Union']
    profile = dict(max_len=8, w_split=3, w_trim=3, w_sample=2, w_restart=0,
                   w_update=0)
    # (the numerically degenerate clouds are C07's subject only)
    clouds = ['blob', 'two', 'three', 'elongated', 'curved', 'face', 'corner',
              'wrapped', 'fill', 'many', 'triangles']
    chunk = 25
    runs = dict(quick=2400, thorough=40000)
    d_max = 6
    rule = ('one case = a Union (Ellipsoid or cube-ellipsoid-mixture members, '
            'unit-restricted or not, n_points_min from d+1, enlargement 1.01-'
            '2) built from a seeded point cloud (one to three clusters, '
            'elongated, curved, at faces/corners, wrapped, filling; d 2-6) '
            'and a seeded history of up to 8 operations over {split(overlap '
            'allowed), split(no overlap), trim(threshold 0.5..1e3), '
            'sample(n)}; after every operation the real object is compared '
            'with a reference model of per-ellipsoid construction-point '
            'sets: equal record lengths, disjoint cover of the points not '
            'yet trimmed, successful split = partition of the parent with '
            '>= n_points_min points each and no increase of the summed '
            'volume, refused operation = no change, no operation raises.  '
            'Non-trivial: >=2 operations including a successful split or '
            'trim.  Distinct: distinct (member class, unit, operation '
            'sequence).  In addition EVERY sequence over the alphabet '
            '{split(overlap), split(no overlap), trim(2), sample(700)} up '
            'to length 3 (quick) / 5 (thorough) is executed on 6 / 12 fixed '
            'seeded clouds (coverage.enumerated_sequences; exhaustive over '
            'the alphabet for these clouds only).')
    assumptions = ['split/trim are never applied to a read-back union (the '
                   'property is about unions built in memory)']

    def nontrivial(self, case, r):
        s = r['stats']
        return len(case['ops']) >= 2 and (s['splits_ok'] + s['trims_ok']) > 0


ALPHABET = [['split', True], ['split', False], ['trim', 2.0], ['sample', 700]]


class SpecC13(SpecC13):
    """Seeded histories plus, per tier, EVERY sequence over the operation
    alphabet up to a bounded length on a fixed set of seeded clouds."""
    max_len = dict(quick=3, thorough=5)
    n_clouds = dict(quick=6, thorough=12)

    def enumerated(self, tier):
        import itertools
        import random
        from engines import e3_bounds as e3
        out = []
        rng = random.Random(20261004)
        for k in range(self.n_clouds[tier]):
            spec = e3.draw_bound_spec(rng, ['Union'], 4, [
                'two', 'three', 'blob', 'face', 'many', 'triangles'][k % 6:][:1])
            spec['member'] = ['Ellipsoid', 'Mixture'][k % 2]
            alpha = [a for a in ALPHABET
                     if spec['member'] == 'Ellipsoid' or a != ['split', False]]
            for n in range(1, self.max_len[tier] + 1):
                for seq in itertools.product(alpha, repeat=n):
                    out.append(dict(bound=spec, ops=[list(o) for o in seq],
                                    qseed=k))
        return out

    def draw_case(self, rng):
        # run indices beyond the seeded range enumerate the sequences
        return e3_driver.Spec.draw_case(self, rng)


def main(argv=None):
    return e3_driver.main(SpecC13(), argv)

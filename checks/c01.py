"""C01 - every stored sample belongs to exactly one shell: its own."""
from checks import e1_driver
from engines import e1_monitors as mon


class SpecC01(e1_driver.Spec):
    prop = 'C01'
    monitor = mon.MonC01
    profile = dict(p_pool_l=0.2, p_pool_s=0.15, p_frequent_bounds=0.15)
    runs = dict(quick=80, thorough=1500)
    budget = dict(quick=120, thorough=1500)
    rule = ('one case = a seeded world configuration (likelihood family, '
            'prior, blobs, sampler settings, pools) plus an operation history '
            '(run slices, stop/resume from the checkpoint, kill during a '
            'likelihood batch, timeouts, stalls, toggles, observations) '
            'placed with bias around bound insertions; the membership '
            'invariant is evaluated after every add_bound, every add_samples, '
            'every run() return and every resume.  Non-trivial: the history '
            'completed, at least one stop/kill/slice fault fired AND at least '
            'one bound insertion moved points between shells (transfers '
            'applied > 0).  Distinct: distinct sequences of state signatures '
            '(phase, number of bounds, transfers pending, discard flag) '
            'over all events of the history.')
    assumptions = [
        'bound.contains() is a pure function of the bound (re-evaluating it '
        'in the monitor cannot legitimately disagree with the sampler)',
        'configurations are small (n_dim<=4, n_live<=80); sampled, not '
        'enumerated']

    def nontrivial(self, r):
        f = r.get('faults') or {}
        p = r.get('probes') or {}
        fired = sum(f.get(k, 0) for k in ('stop_resume', 'kill', 'slice',
                                         'timeout_slice', 'kill_in_write'))
        return fired > 0 and p.get('transfers_applied', 0) > 0

    def monitor_stats(self, m):
        return dict(invariant_evaluations=m.n_checks,
                    points_checked=m.n_points_checked)


def main(argv=None):
    return e1_driver.main(SpecC01(), argv)

"""Invariant monitors for the sampler-history engine (C01 C02 C03 C10 C12).

Each oracle is a transcription of the property statement, evaluated from the
outside on the public state of the real Sampler and on the ground truth the
harness recorded itself (likelihood call log, proposal tally, simulated clock).
"""

import copy

import numpy as np
from scipy.special import logsumexp

from simkit import workload, digest
from simkit.clock import CLOCK
from simkit.workload import REC
from engines.e1_sampler import Monitor, CURRENT

_TAPS = {'installed': False}


def install_taps():
    """Class-level taps on the bounds' sample methods (instances are pickled
    for the sampler pool, so instance-level wrappers are not an option)."""
    if _TAPS['installed']:
        return
    from nautilus.bounds import UnitCube, NautilusBound
    for cls in (UnitCube, NautilusBound):
        if not callable(getattr(cls, 'sample', None)):
            raise RuntimeError('seam missing: {}.sample'.format(cls.__name__))
        orig = cls.sample

        def make(orig):
            def sample(self, *a, **k):
                out = orig(self, *a, **k)
                w = CURRENT['world']
                if (w is not None and w.sample_shell_ctx is not None and
                        w.sampler is not None and out is not None):
                    s = w.sampler
                    try:
                        target = s.bounds[w.sample_shell_ctx]
                    except Exception:
                        target = None
                    if self is target:
                        for m in w.monitors:
                            f = getattr(m, 'on_proposals', None)
                            if f is not None:
                                f(w, self, len(out))
                return out
            sample._verif_orig = orig
            return sample
        cls.sample = make(orig)
    # probe: the fallback branch of UnitCubeEllipsoidMixture.compute (it calls
    # UnitCube.compute with the point array instead of a dimension)
    orig_compute = UnitCube.compute.__func__

    def compute(cls, n_dim, *a, **k):
        w = CURRENT['world']
        if w is not None and not isinstance(n_dim, (int, np.integer)):
            w.probes['mixture_fallback_branch'] = w.probes.get(
                'mixture_fallback_branch', 0) + 1
        return orig_compute(cls, n_dim, *a, **k)
    UnitCube.compute = classmethod(compute)
    _TAPS['installed'] = True


def _in_unit(p):
    return np.all((p >= 0) & (p < 1), axis=-1)


# ---------------------------------------------------------------------------
class MonC01(Monitor):
    """Every stored sample belongs to exactly one shell: its own."""
    prop = 'C01'

    def attach(self, world):
        self.seen = {}
        self.n_checks = 0
        self.n_points_checked = 0

    def on_event(self, world, tag, info):
        if tag in ('new_sampler', 'post_add_bound', 'run_return',
                   'post_toggle'):
            self.check(world, True, tag)
        elif tag == 'post_add_samples':
            self.check(world, False, tag)

    def check(self, world, full, tag):
        s = world.sampler
        nb = len(s.bounds)
        if len(s.points) != nb:
            world.violate('C01', 'misaligned',
                          '{} point arrays for {} bounds at {}'.format(
                              len(s.points), nb, tag))
        self.n_checks += 1
        if full:
            self.seen = {}
        for i in range(nb):
            pts = s.points[i]
            key = (id(pts), len(pts))
            if self.seen.get(i) == key:
                continue
            self.seen[i] = key
            if len(pts) == 0:
                continue
            self.n_points_checked += len(pts)
            ok = _in_unit(pts)
            if not np.all(ok):
                j = int(np.flatnonzero(~ok)[0])
                world.violate('C01', 'outside_unit_cube',
                              'shell {} row {} outside [0,1) at {}'.format(
                                  i, j, tag), point=pts[j])
            inb = np.asarray(s.bounds[i].contains(pts))
            if not np.all(inb):
                j = int(np.flatnonzero(~inb)[0])
                world.violate('C01', 'not_in_own_bound',
                              'shell {} row {} not inside its own bound at '
                              '{}'.format(i, j, tag), point=pts[j], shell=i)
            for k in range(i + 1, nb):
                ink = np.asarray(s.bounds[k].contains(pts))
                if np.any(ink):
                    j = int(np.flatnonzero(ink)[0])
                    world.violate(
                        'C01', 'inside_later_bound',
                        'shell {} row {} lies inside later bound {} at '
                        '{}'.format(i, j, k, tag), point=pts[j], shell=i,
                        later=k)
            assoc = s.shell_association(pts)
            if not np.all(assoc == i):
                j = int(np.flatnonzero(assoc != i)[0])
                world.violate('C01', 'association',
                              'shell_association of shell {} row {} is {} at '
                              '{}'.format(i, j, int(assoc[j]), tag),
                              point=pts[j])
        if full and nb > 0:
            allp = np.concatenate([p for p in s.points if len(p)] or
                                  [np.zeros((0, s.n_dim))])
            if len(allp):
                v = np.ascontiguousarray(allp).view(
                    [('', allp.dtype)] * allp.shape[1]).ravel()
                if len(np.unique(v)) != len(v):
                    world.violate('C01', 'duplicate_point',
                                  'a point is stored twice at {}'.format(tag))


# ---------------------------------------------------------------------------
class MonC02(Monitor):
    """log_z, n_eff, weights are the estimators of the stored samples."""
    prop = 'C02'

    def attach(self, world):
        self.live = {}        # id(bound) -> [n_exploration, n_sampling]
        self.committed = {}
        self.order = []       # ids in sampler.bounds order at last commit
        self.keep = []        # keep bound objects alive (stable ids)
        self.at_write = ({}, [])
        self.n_checks = 0
        self.neg_inf_seen = 0
        self.skipped_zero_z = 0

    def on_proposals(self, world, bound, n):
        s = world.sampler
        t = self.live.setdefault(id(bound), [0, 0])
        t[1 if s.explored else 0] += n

    def _commit(self, world):
        s = world.sampler
        for b in s.bounds:
            self.live.setdefault(id(b), [0, 0])
            self.keep.append(b)
        self.order = [id(b) for b in s.bounds]
        self.committed = copy.deepcopy(self.live)

    def on_event(self, world, tag, info):
        s = world.sampler
        if tag == 'new_sampler':
            if not info['from_file']:
                self.live, self.committed, self.order = {}, {}, []
                return
            # only the file survived: proposals made since the last
            # completed checkpoint write are gone
            src, order = self.at_write
            old = [src.get(k, [0, 0]) for k in order]
            if len(old) != len(s.bounds):
                world.violate('C02', 'resume_bounds',
                              'resumed sampler has {} bounds, the last '
                              'completed state had {}'.format(
                                  len(s.bounds), len(old)))
            self.live = {id(b): list(t) for b, t in zip(s.bounds, old)}
            self._commit(world)
            self.check(world, tag)
        elif tag == 'post_write':
            # (bounds and their order as they are in the file)
            for b in s.bounds:
                self.live.setdefault(id(b), [0, 0])
                self.keep.append(b)
            self.at_write = (copy.deepcopy(self.live),
                             [id(b) for b in s.bounds])
        elif tag == 'restart_fresh':
            self.live, self.committed, self.order = {}, {}, []
            self.at_write = ({}, [])
        elif tag == 'post_add_bound':
            self._commit(world)
            self.check(world, tag)
        elif tag == 'post_add_samples':
            self._commit(world)
            self.check(world, tag)
        elif tag == 'run_return':
            self._commit(world)
            self.check(world, tag)
        elif tag == 'post_toggle':
            self.check(world, tag)

    def check(self, world, tag):
        s = world.sampler
        nb = len(s.bounds)
        self.n_checks += 1

        def bad(cls, msg, **d):
            world.violate('C02', cls, msg + ' at ' + tag, **d)

        names = ['shell_n', 'shell_n_sample', 'shell_n_eff',
                 'shell_log_l_min', 'shell_log_l', 'shell_log_v']
        if s.explored:
            names += ['shell_n_sample_exp', 'shell_end_exp']
        for name in names:
            if len(getattr(s, name)) != nb:
                bad('misaligned', '{} has {} entries for {} bounds'.format(
                    name, len(getattr(s, name)), nb))
        for name in ('points', 'log_l'):
            if len(getattr(s, name)) != nb:
                bad('misaligned', '{} has {} entries for {} bounds'.format(
                    name, len(getattr(s, name)), nb))
        if s.blobs is not None and len(s.blobs) != nb:
            bad('misaligned', 'blobs has {} entries for {} bounds'.format(
                len(s.blobs), nb))
        view_on = bool(s._discard_exploration and s.explored)
        terms = []
        total = 0
        for i in range(nb):
            n_all = len(s.points[i])
            if len(s.log_l[i]) != n_all:
                bad('misaligned', 'shell {}: {} points, {} log_l'.format(
                    i, n_all, len(s.log_l[i])))
            if s.blobs is not None and len(s.blobs[i]) != n_all:
                bad('misaligned', 'shell {}: {} points, {} blobs'.format(
                    i, n_all, len(s.blobs[i])))
            start = 0
            if s.explored:
                e = int(s.shell_end_exp[i])
                if not 0 <= e <= n_all:
                    bad('misaligned', 'shell {}: exploration end index {} '
                        'outside 0..{}'.format(i, e, n_all))
                if view_on:
                    start = e
            cnt = n_all - start
            if int(s.shell_n[i]) != cnt:
                bad('count', 'shell {}: shell_n {} but {} samples in the '
                    'current view'.format(i, int(s.shell_n[i]), cnt))
            if cnt == 0:
                continue
            t = self.live.get(id(s.bounds[i]), [0, 0])
            prop = t[1] if view_on else t[0] + t[1]
            if cnt > prop:
                bad('volume_fraction', 'shell {}: {} samples kept out of {} '
                    'proposals (more than all)'.format(i, cnt, prop),
                    shell=i, count=cnt, proposals=prop)
            b = s.bounds[i]
            if getattr(b, 'n_sample', 1) == 0:
                continue
            log_v = float(b.log_v) + np.log(cnt / prop)
            got = float(s.shell_log_v[i])
            if not abs(got - log_v) <= 1e-9:
                bad('volume', 'shell {}: reported log-volume {!r}, bound '
                    'volume x {}/{} gives {!r}'.format(
                        i, got, cnt, prop, log_v), shell=i, count=cnt,
                    proposals=prop)
            ll = np.asarray(s.log_l[i][start:], dtype=float)
            self.neg_inf_seen += int(np.sum(ll == -np.inf))
            mean_l = float(logsumexp(ll) - np.log(cnt))
            got_l = float(s.shell_log_l[i])
            if not (abs(got_l - mean_l) <= 1e-9 or (
                    mean_l == -np.inf and got_l == -np.inf)):
                bad('shell_likelihood', 'shell {}: recorded log mean '
                    'likelihood {!r}, stored samples give {!r}'.format(
                        i, got_l, mean_l), shell=i)
            terms.append(ll + (log_v - np.log(cnt)))
            total += cnt
        got_z = s.log_z
        if total == 0:
            if got_z is not None:
                bad('log_z', 'log_z is {!r} without samples'.format(got_z))
            return
        terms = np.concatenate(terms)
        log_z = float(logsumexp(terms))
        if got_z is None or not (abs(float(got_z) - log_z) <= 1e-9 or
                                 (log_z == -np.inf and got_z == -np.inf)):
            bad('log_z', 'log_z {!r}, recomputed from stored samples '
                '{!r}'.format(got_z, log_z))
        if log_z == -np.inf:
            self.skipped_zero_z += 1
            return
        post = s.posterior()
        log_w = np.asarray(post[1], dtype=float)
        if len(log_w) != total:
            bad('weights', 'posterior() has {} weights for {} stored '
                'samples'.format(len(log_w), total))
        ref = terms - log_z
        fin = np.isfinite(ref)
        if not (np.all(np.isfinite(log_w) == fin) and
                np.all(np.abs(log_w[fin] - ref[fin]) <= 1e-9)):
            j = int(np.flatnonzero(~((np.isfinite(log_w) == fin) & (
                np.where(fin, np.abs(log_w - ref), 0) <= 1e-9)))[0])
            bad('weights', 'posterior weight {} is {!r}, expected '
                '{!r}'.format(j, float(log_w[j]), float(ref[j])))
        if not abs(float(logsumexp(log_w))) <= 1e-9:
            bad('weights', 'weights sum to exp({!r})'.format(
                float(logsumexp(log_w))))
        kish = float(np.exp(2 * logsumexp(ref) - logsumexp(2 * ref)))
        got_n = float(s.n_eff)
        if not abs(got_n - kish) <= 1e-8 * max(1.0, kish):
            bad('n_eff', 'n_eff {!r}, Kish effective sample size of the '
                'weights {!r}'.format(got_n, kish))


# ---------------------------------------------------------------------------
class MonC03(Monitor):
    """Posterior rows are faithful (point, log-likelihood, blob) triples."""
    prop = 'C03'

    def attach(self, world):
        self.n_checks = 0
        self.rows_checked = 0

    def on_event(self, world, tag, info):
        if tag in ('run_return', 'post_toggle', 'post_add_bound'):
            # (also after every bound insertion: a run that never returns
            # because its state is already corrupt must not escape)
            self.check(world, tag)
        elif tag == 'new_sampler' and info['from_file']:
            self.check(world, tag)

    def check(self, world, tag):
        s = world.sampler
        spec = world.cfg['lik']
        kind = spec['blob']
        if len(s.points) == 0 or sum(len(p) for p in s.points) == 0:
            return

        def bad(cls, msg, **d):
            world.violate('C03', cls, msg + ' at ' + tag, **d)

        self.n_checks += 1
        has_blobs = kind != 'none'
        if has_blobs and s.blobs is None:
            bad('blobs_missing', 'likelihood returned blobs but none stored')
        if has_blobs:
            pts, log_w, log_l, blobs = s.posterior(return_blobs=True)
        else:
            pts, log_w, log_l = s.posterior()
            blobs = None
        rows = workload.phys_rows_from_posterior(pts, spec['n_dim'], None)
        n = len(rows)
        if len(log_l) != n or (blobs is not None and len(blobs) != n):
            bad('length', 'posterior lengths differ: {} points, {} log_l, {} '
                'blobs'.format(n, len(log_l),
                               None if blobs is None else len(blobs)))
        # stored unit-cube points must be untouched by the prior
        unit = np.concatenate([p[st:] for p, st in zip(s.points, (
            s.shell_end_exp if (s._discard_exploration and s.explored) else
            np.zeros(len(s.points), dtype=int)))])
        if not np.all(_in_unit(unit)):
            bad('stored_point_modified', 'a stored unit-cube point left '
                '[0,1) (prior modified it in place?)')
        # ... and the prior applied to them must give the returned rows
        if spec['prior'] in ('fn', 'fn_inplace', 'fn_dict'):
            pf = workload.PriorFn(spec['lo'], spec['hi'], 'fn')
            again = pf(np.array(unit))
        else:
            again = s.prior.unit_to_physical(np.array(unit))
        if np.asarray(again, dtype=np.float64).tobytes() != rows.tobytes():
            bad('row_not_prior_of_stored_point', 'posterior points are not '
                'the prior transform of the stored unit-cube points')
        seen = set()
        lik = workload.Lik(spec)
        ll_pure, _, _ = lik.pure(rows if spec['arg'] == 'array' else {
            k: rows[:, i] for i, k in enumerate(lik.keys)})
        ll_pure = np.atleast_1d(ll_pure)
        log_l = np.asarray(log_l, dtype=np.float64)
        for j in range(n):
            key = rows[j].tobytes()
            idx = REC.first.get(key)
            if idx is None:
                bad('unknown_point', 'posterior row {} was never passed to '
                    'the likelihood'.format(j), row=rows[j])
            if key in seen:
                bad('duplicate_row', 'posterior row {} occurs twice'.format(
                    j), row=rows[j])
            seen.add(key)
            if REC.calls[idx][1] != log_l[j].tobytes():
                bad('wrong_log_l', 'posterior row {} carries log_l {!r}, the '
                    'likelihood returned {!r}'.format(
                        j, float(log_l[j]), float(np.frombuffer(
                            REC.calls[idx][1], dtype=np.float64)[0])),
                    row=rows[j])
            if np.float64(ll_pure[j]).tobytes() != log_l[j].tobytes():
                bad('wrong_log_l', 'posterior row {}: re-evaluating the pure '
                    'likelihood gives {!r}, stored {!r}'.format(
                        j, float(ll_pure[j]), float(log_l[j])), row=rows[j])
            if has_blobs:
                exp = workload.expected_blob_bytes(kind, rows[j])
                got = np.asarray(blobs[j]).tobytes()
                if got != exp:
                    bad('wrong_blob', 'posterior row {} carries blob bytes '
                        '{} instead of {}'.format(j, got.hex(), exp.hex()),
                        row=rows[j])
        self.rows_checked += n


# ---------------------------------------------------------------------------
class MonC10(Monitor):
    """Likelihood calls: exact count, one batch per step, budget, support."""
    prop = 'C10'

    def attach(self, world):
        self.base_n_like = 0
        self.base_rows = 0
        self.last_written = None
        self.cur = None
        self.run_rows0 = 0
        self.n_checks = 0
        self.batches_in_run = 0
        self.timeouts_hit = 0
        self.zero_budget_runs = 0

    def on_event(self, world, tag, info):
        s = world.sampler

        def bad(cls, msg, **d):
            world.violate('C10', cls, msg, **d)

        if tag == 'new_sampler':
            if info['from_file']:
                if (self.last_written is not None and
                        int(s.n_like) != self.last_written):
                    bad('counter_resume', 'resumed counter {} differs from '
                        'the stored count {}'.format(int(s.n_like),
                                                     self.last_written))
            elif int(s.n_like) != 0:
                bad('counter_resume', 'fresh sampler starts at {}'.format(
                    int(s.n_like)))
            self.base_n_like = int(s.n_like)
            self.base_rows = REC.n_rows
        elif tag == 'restart_fresh':
            self.last_written = None
        elif tag == 'post_write':
            self.last_written = int(s.n_like)
        elif tag == 'pre_run':
            self.cur = info
            self.batches_in_run = 0
        elif tag == 'pre_eval':
            self.n_checks += 1
            pts = np.asarray(info['points'])
            nb = world.cfg['sampler']['n_batch']
            if pts.ndim != 2 or pts.shape[0] != nb:
                bad('batch_size', 'a step evaluates {} points, n_batch is '
                    '{}'.format(pts.shape[0], nb))
            if not np.all(_in_unit(pts)):
                j = int(np.flatnonzero(~_in_unit(pts))[0])
                bad('support', 'a point outside the unit hypercube is '
                    'evaluated', point=pts[j])
            c = self.cur
            if c is not None:
                self.batches_in_run += 1
                if int(s.n_like) >= c['n_like_max']:
                    bad('budget', 'a batch starts with n_like {} >= '
                        'n_like_max {}'.format(int(s.n_like),
                                               c['n_like_max']))
                if c['timeout'] is not None and not (
                        CLOCK.now - c['t0'] < c['timeout']):
                    bad('timeout', 'a batch starts {} s after run() began, '
                        'timeout is {} s'.format(CLOCK.now - c['t0'],
                                                 c['timeout']))
        elif tag == 'post_eval':
            nb = world.cfg['sampler']['n_batch']
            if info['rows'] != nb:
                bad('batch_size', 'a step caused {} likelihood evaluations, '
                    'n_batch is {}'.format(info['rows'], nb))
            want_calls = 1 if world.cfg['lik']['vectorized'] else nb
            if info['calls'] != want_calls:
                bad('batch_size', 'a step caused {} likelihood invocations '
                    'instead of {}'.format(info['calls'], want_calls))
            expect = self.base_n_like + (REC.n_rows - self.base_rows)
            if int(s.n_like) != expect:
                bad('counter', 'n_like is {}, stored count {} plus {} new '
                    'evaluations is {}'.format(
                        int(s.n_like), self.base_n_like,
                        REC.n_rows - self.base_rows, expect))
            if len(REC.prior_bad):
                bad('support', 'the prior received a point outside the unit '
                    'hypercube')
        elif tag == 'kill':
            # the partial batch is lost with the process
            self.cur = None
        elif tag == 'run_return':
            c = info
            self.cur = None
            rows = REC.n_rows - c['rows0']
            if c['n_like0'] >= c['n_like_max']:
                self.zero_budget_runs += 1
                if rows != 0:
                    bad('budget', 'run() evaluated {} points although n_like '
                        '{} >= n_like_max {} on entry'.format(
                            rows, c['n_like0'], c['n_like_max']))
            nb = world.cfg['sampler']['n_batch']
            if c['n_like0'] < c['n_like_max'] and not (
                    int(s.n_like) < c['n_like_max'] + nb):
                bad('budget', 'n_like {} exceeds n_like_max {} by a full '
                    'batch'.format(int(s.n_like), c['n_like_max']))
            expect = self.base_n_like + (REC.n_rows - self.base_rows)
            if int(s.n_like) != expect:
                bad('counter', 'n_like is {} on return, expected {}'.format(
                    int(s.n_like), expect))
            r = world.cfg['run']
            # the success predicate, evaluated on the stored samples of the
            # current view themselves (not on the sampler's own counters)
            view_on = bool(s._discard_exploration and s.explored)
            counts = []
            for i, pts in enumerate(s.points):
                start = int(s.shell_end_exp[i]) if (
                    view_on and len(s.shell_end_exp) == len(s.points)) else 0
                counts.append(len(pts) - start)
            enough = bool(len(counts) and min(counts) >= r['n_shell'])
            # effective sample size of the posterior weights themselves
            n_eff_ind = float(s.n_eff)
            if s.explored and enough:
                try:
                    lw = np.asarray(s.posterior()[1], dtype=float)
                    if len(lw) and np.all(np.isfinite(lw[lw > -np.inf])):
                        kish = float(np.exp(-logsumexp(2 * lw)))
                        if np.isfinite(kish):
                            n_eff_ind = kish
                except Exception:
                    pass
            # the sampler's own figure decides ties at the threshold; the
            # weights decide if the two disagree by more than rounding
            n_eff_use = float(s.n_eff)
            if abs(n_eff_ind - n_eff_use) > 1e-6 * max(1.0, abs(n_eff_ind)):
                n_eff_use = n_eff_ind
            pred = bool(s.explored and enough and n_eff_use >= r['n_eff'])
            if bool(c['ret']) != pred:
                bad('return_value', 'run() returned {} but explored={}, '
                    'smallest number of samples in a shell (current view)={}, '
                    'n_eff={!r} (targets n_shell={}, n_eff={})'.format(
                        c['ret'], bool(s.explored),
                        min(counts) if counts else None,
                        float(s.n_eff), r['n_shell'], r['n_eff']))
            if not c['ret'] and int(s.n_like) < c['n_like_max']:
                if c['timeout'] is None:
                    bad('early_return', 'run() stopped at n_like {} < '
                        'n_like_max {} without success and without '
                        'timeout'.format(int(s.n_like), c['n_like_max']))
                elif not (CLOCK.now - c['t0'] >= c['timeout']):
                    bad('early_return', 'run() stopped after {} s without '
                        'success, timeout {} s not reached'.format(
                            CLOCK.now - c['t0'], c['timeout']))
                else:
                    self.timeouts_hit += 1


# ---------------------------------------------------------------------------
def bound_fingerprint(b):
    """Digest of a bound's geometry (not of its sampling cache/counters)."""
    name = type(b).__name__
    if name == 'UnitCube':
        return digest.digest(('cube', int(b.n_dim)))
    parts = [name, int(b.n_dim)]
    shift = getattr(b, 'shift', None)
    if shift is not None:
        parts.append([np.asarray(shift.periodic), np.asarray(shift.centers)])
    for nbd in b.neural_bounds:
        ob = nbd.outer_bound
        parts.append([np.asarray(ob.c), np.asarray(ob.A),
                      np.float64(nbd.score_predict_min)])
        if nbd.emulator is not None:
            parts.append([np.asarray(nbd.emulator.mean),
                          np.asarray(nbd.emulator.scale)])
            for net in nbd.emulator.neural_networks:
                parts.append([np.asarray(c) for c in net.coefs_])
                parts.append([np.asarray(c) for c in net.intercepts_])
    for mb in b.outer_bound.bounds:
        parts.append(np.asarray(mb.dim_cube))
        if mb.ellipsoid is not None:
            parts.append([np.asarray(mb.ellipsoid.c),
                          np.asarray(mb.ellipsoid.A)])
    parts.append(np.asarray(b.outer_bound.log_v_all))
    return digest.digest(parts)


def _stats(s):
    """Everything C12 calls 'every statistic', bit for bit."""
    out = dict(
        log_z=None if s.log_z is None else np.float64(s.log_z),
        n_eff=np.float64(s.n_eff),
        shell_n=np.array(s.shell_n), shell_n_eff=np.array(s.shell_n_eff),
        shell_log_l=np.array(s.shell_log_l),
        shell_log_v=np.array(s.shell_log_v),
        shell_n_sample=np.array(s.shell_n_sample))
    try:
        if s.blobs is not None:
            out['post'] = [np.asarray(x) if not isinstance(x, dict) else x
                           for x in s.posterior(return_blobs=True)]
        else:
            out['post'] = [np.asarray(x) if not isinstance(x, dict) else x
                           for x in s.posterior()]
    except Exception as e:
        out['post'] = 'EXC:' + type(e).__name__ + ':' + str(e)[:80]
    return {k: digest.digest(v) for k, v in out.items()}, out


class MonC12(Monitor):
    """Exploration ends once; history append-only; discard is a pure view."""
    prop = 'C12'

    def attach(self, world):
        self.explored_seen = False
        self.frozen = None
        self.prev = None            # per-shell (points, log_l, blobs) copies
        self.at_write = None
        self.boundary = None        # index into REC.calls
        self.last_unexplored_calls = 0
        self.valid = []             # indices of calls that were not lost
        self.valid_upto = 0
        self.calls_at_write = 0
        self.n_checks = 0
        self.toggle_checks = 0
        self.view_rows_checked = 0
        self.resume_view_checks = 0
        self.pre_resume_stats = None

    def _snapshot(self, s):
        return [(np.array(p), np.array(l),
                 None if s.blobs is None else np.array(s.blobs[i]))
                for i, (p, l) in enumerate(zip(s.points, s.log_l))]

    def _sync_valid(self):
        self.valid.extend(range(self.valid_upto, len(REC.calls)))
        self.valid_upto = len(REC.calls)

    def on_event(self, world, tag, info):
        s = world.sampler

        def bad(cls, msg, **d):
            world.violate('C12', cls, msg + ' at ' + tag, **d)

        if tag == 'restart_fresh':
            self.attach(world)      # a new computation starts from scratch
            return
        if tag == 'kill':
            # everything evaluated since the last completed checkpoint write
            # is lost with the process (the batch being evaluated, or - when
            # the process died inside a write - the batches whose write did
            # not complete)
            self._sync_valid()
            self.valid = [i for i in self.valid if i < self.calls_at_write]
            return
        if tag == 'post_write':
            self.at_write = self._snapshot(s)
            self.calls_at_write = len(REC.calls)
            return
        if tag == 'pre_resume':
            if s.explored:
                self.pre_resume_stats = self._both_views(world, bad)
            else:
                self.pre_resume_stats = None
            return
        if tag not in ('new_sampler', 'post_add_samples', 'run_return',
                       'post_toggle'):
            return
        self._sync_valid()
        self.n_checks += 1
        if tag == 'new_sampler':
            if not info['from_file']:
                self.prev = None
                self.at_write = None
                if self.explored_seen:
                    bad('exploration_resumed', 'a fresh start after '
                        'exploration had finished')
            elif info['how'] == 'kill':
                self.prev = self.at_write
        # exploration never resumes
        if self.explored_seen and not s.explored:
            bad('exploration_resumed', 'explored was observed true earlier '
                'and is false now')
        if not s.explored:
            self.last_unexplored_calls = len(REC.calls)
        if s.explored and not self.explored_seen:
            self.explored_seen = True
            self.boundary = self.last_unexplored_calls
            self.frozen = [bound_fingerprint(b) for b in s.bounds]
            self.prev = None    # shells may have been removed exactly once
        if s.explored:
            fp = [bound_fingerprint(b) for b in s.bounds]
            if fp != self.frozen:
                bad('bounds_changed', 'the set of bounds changed after '
                    'exploration finished ({} -> {} bounds)'.format(
                        len(self.frozen), len(fp)))
            for i, p in enumerate(s.points):
                if len(p) == 0:
                    bad('empty_shell', 'shell {} has no sample after '
                        'exploration finished'.format(i))
        # append-only
        snap = self._snapshot(s)
        if self.prev is not None and s.explored:
            if len(snap) != len(self.prev):
                bad('history_rewritten', 'number of shells changed from {} '
                    'to {}'.format(len(self.prev), len(snap)))
            for i, (new, old) in enumerate(zip(snap, self.prev)):
                for a, b, nm in zip(new, old, ('points', 'log_l', 'blobs')):
                    if a is None or b is None:
                        continue
                    if len(a) < len(b) or a[:len(b)].tobytes() != \
                            b.tobytes():
                        bad('history_rewritten', '{} of shell {} is not an '
                            'extension of its earlier content ({} -> {} '
                            'rows)'.format(nm, i, len(b), len(a)))
        self.prev = snap
        if s.explored and tag in ('post_toggle', 'run_return',
                                  'new_sampler'):
            both = self._both_views(world, bad)
            if (tag == 'new_sampler' and info['how'] == 'stop' and
                    self.pre_resume_stats is not None):
                self.resume_view_checks += 1
                for view in ('on', 'off'):
                    if both[view] != self.pre_resume_stats[view]:
                        diff = [k for k in both[view] if both[view][k] !=
                                self.pre_resume_stats[view][k]]
                        bad('view_depends_on_route', 'discard={} view '
                            'differs between the live object and the '
                            'object resumed from its checkpoint: {}'.format(
                                view, diff))
            self.pre_resume_stats = None

    def _both_views(self, world, bad):
        """Toggle there and back; check restoration and the view content."""
        s = world.sampler
        self.toggle_checks += 1
        cur = bool(s._discard_exploration)
        a, a_raw = _stats(s)
        s.discard_exploration = not cur
        b, b_raw = _stats(s)
        s.discard_exploration = cur
        a2, _ = _stats(s)
        s.discard_exploration = not cur
        b2, _ = _stats(s)
        s.discard_exploration = cur
        if a != a2:
            bad('toggle_not_restored', 'toggling discard_exploration {} -> '
                '{} -> {} changed {}'.format(
                    cur, not cur, cur, [k for k in a if a[k] != a2[k]]))
        if b != b2:
            bad('toggle_not_restored', 'toggling discard_exploration twice '
                'changed {}'.format([k for k in b if b[k] != b2[k]]))
        on_raw = a_raw if cur else b_raw
        off_raw = b_raw if cur else a_raw
        self._view_content(world, on_raw, off_raw, bad)
        return dict(on=(a if cur else b), off=(b if cur else a))

    def _view_content(self, world, on_raw, off_raw, bad):
        spec = world.cfg['lik']
        for raw, lo in ((on_raw, self.boundary), (off_raw, 0)):
            post = raw['post']
            if isinstance(post, str):
                bad('view_content', 'posterior() raised {}'.format(post))
            rows = workload.phys_rows_from_posterior(post[0], spec['n_dim'],
                                                     None)
            got = sorted(r.tobytes() for r in rows)
            # a batch killed and re-evaluated after the restart appears once
            want = set(REC.calls[i][0] for i in self.valid if i >= lo)
            if len(set(got)) != len(got):
                bad('view_content', 'discard={} view repeats a row'.format(
                    lo != 0))
            if lo != 0 and set(got) != want:
                bad('view_content', 'discard=True view shows {} rows, {} '
                    'distinct points were evaluated after exploration '
                    'ended ({} missing, {} extra)'.format(
                        len(got), len(want), len(want - set(got)),
                        len(set(got) - want)))
            if lo == 0 and not set(got) <= want:
                # (transfer candidates that never re-entered a shell were
                # evaluated but are legitimately not part of the posterior)
                bad('view_content', 'discard=False view shows rows that '
                    'were never evaluated')
            self.view_rows_checked += len(got)

"""Child process of the crash-point engine (E2).

Modes
  record / stop : run the seeded checkpointed workload (under the iosim shim;
                  in stop mode the shim kills the process before operation n).
                  Around every Sampler.write / write_shell_update the child
                  emits markers into the operation log: 'B <kind>' on entry,
                  'E <digest>' on return, where digest is the logical content
                  of the checkpoint as it then is.
  resume        : what "re-running the same script" does after a kill: build
                  the sampler again (resume=True) and run to the end; report
                  the final result digest.
"""

import ctypes
import json
import os
import sys

HERE = os.path.dirname(os.path.dirname(os.path.abspath(__file__)))
sys.path.insert(0, HERE)


def main():
    cfg_path, scratch, mode, out_path = sys.argv[1:5]
    from simkit import env
    env.bootstrap()
    import numpy as np
    import warnings
    warnings.simplefilter('ignore')
    np.seterr(all='ignore')
    from simkit import digest
    from engines import e1_sampler as e1
    with open(cfg_path) as f:
        cfg = json.load(f)
    e1.install_clock()
    lib = None
    if os.environ.get('LD_PRELOAD'):
        lib = ctypes.CDLL(None)
        if not hasattr(lib, 'iosim_mark'):
            lib = None

    def mark(text):
        if lib is not None:
            lib.iosim_mark(text.encode())

    class Marker(e1.Monitor):
        def on_event(self, world, tag, info):
            if tag == 'post_write':
                try:
                    d, _ = digest.h5_file_logical(world.filepath)
                except Exception as e:
                    d = 'EXC:' + type(e).__name__
                mark('E {} {}'.format('full' if info['full'] else 'update',
                                      d))

    monitors = [Marker()]
    if mode == 'resume':
        # the resumed computation must be a valid one: the shells must
        # partition the stored samples throughout (oracle of C01)
        from engines import e1_monitors
        monitors.append(e1_monitors.MonC01())
    world = e1.World(cfg, scratch, monitors, tag='ckpt')
    # entry markers: wrap below the world's own wrappers
    result = dict(mode=mode, status='ok')
    try:
        s = world.new_sampler('fresh' if mode != 'resume' else 'kill')
        w_full, w_upd = s.write, s.write_shell_update

        def write(*a, **k):
            mark('B full')
            return w_full(*a, **k)

        def write_shell_update(*a, **k):
            mark('B update')
            return w_upd(*a, **k)
        s.write, s.write_shell_update = write, write_shell_update
        mark('S start n_like={}'.format(int(s.n_like)))
        world.apply(['finish'])
        r, parts = digest.result_digest(s, with_rng=False)
        result.update(result=r, parts=parts, n_like=int(s.n_like),
                      explored=bool(s.explored), probes=world.probes,
                      batches=world.batches_done,
                      ret=bool(world.last_run['ret']))
        mark('R ' + r)
    except e1.Violation as v:
        result.update(status='invalid', error='{} {}: {}'.format(
            v.prop, v.cls, v.msg))
    except Exception as e:
        import traceback
        result.update(status='exception',
                      error='{}: {}'.format(type(e).__name__, e),
                      traceback=traceback.format_exc()[-2500:])
    if lib is not None:
        result['ops'] = int(lib.iosim_count())
    with open(out_path, 'w') as f:
        json.dump(result, f)
    return 0


if __name__ == '__main__':
    sys.exit(main())

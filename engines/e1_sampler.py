"""E1 - sampler-history engine.

A *case* is an explicit, JSON-serialisable dict {cfg, ops}: the configuration
of one simulated world (likelihood, prior, sampler settings, pools, clock
costs) and the list of operations the simulated caller performs (run slices,
stops and resumes, kills during a likelihood batch, stalls, toggles,
observations).  `execute(case, monitors)` runs it against the real
nautilus.Sampler and reports the first violation a monitor raises.
"""

import contextlib
import copy
import io
import os
import random
import shutil
import signal
import sys
import traceback

import numpy as np

from simkit import workload, simpool, digest
from simkit.clock import CLOCK, install as install_clock
from simkit.workload import REC, SimKill

CAP_ROWS = 30000
CURRENT = {'world': None}


class Violation(Exception):
    def __init__(self, prop, cls, msg, detail=None):
        Exception.__init__(self, '{} {}: {}'.format(prop, cls, msg))
        self.prop = prop
        self.cls = cls
        self.msg = msg
        self.detail = detail or {}


class RunTimeout(BaseException):
    pass


class SeamMissing(Exception):
    pass


# ---------------------------------------------------------------------------
# configuration
# ---------------------------------------------------------------------------

def draw_cfg(rng, profile=None):
    """Draw a world configuration 'swarm style'."""
    profile = profile or {}
    n_dim = rng.choice(profile.get('n_dim', [2, 2, 2, 3, 3, 3, 4, 4, 5]))
    lik = workload.draw_lik_spec(
        rng, n_dim,
        family=profile.get('family'), blob=profile.get('blob'),
        prior=(rng.choice(profile['prior_choices'])
               if 'prior_choices' in profile else profile.get('prior')),
        vectorized=profile.get('vectorized'))
    if profile.get('blob_any') and lik['blob'] == 'none':
        lik['blob'] = rng.choice(workload.BLOBS[1:])
    n_live = rng.choice(profile.get('n_live', [20, 30, 40, 40, 60, 80]))
    n_batch = rng.choice(profile.get('n_batch', [1, 2, 5, 10, 10, 20, 20,
                                                  50]))
    if n_batch == 1:
        n_live = min(n_live, 20)
    elif n_batch <= 5:
        n_live = min(n_live, 30)
    n_networks = rng.choice(profile.get('n_networks', [0, 0, 0, 1, 1, 2]))
    periodic = None
    if lik['family'] == 'wrap' and rng.random() < 0.75:
        periodic = [0]
    elif rng.random() < 0.1:
        periodic = sorted(rng.sample(range(n_dim), rng.choice(
            [1, 1, 2, n_dim])))
    sampler = dict(
        n_live=n_live,
        n_update=rng.choice([None, None, max(5, n_live // 2), n_live * 2]),
        n_batch=n_batch,
        n_like_new_bound=rng.choice([None, None, None, 3 * n_live]),
        enlarge_per_dim=rng.choice([1.01, 1.05, 1.1, 1.1, 1.1, 1.1, 1.5, 1.5,
                                    100.0]),
        n_points_min=rng.choice([None, n_dim + 1, n_dim + 4, n_dim + 10]),
        split_threshold=rng.choice([100, 100, 1, 1, 0.3]),
        n_networks=n_networks,
        nn_kwargs=rng.choice([
            dict(hidden_layer_sizes=[8], max_iter=40),
            dict(hidden_layer_sizes=[16], max_iter=200),
            dict(hidden_layer_sizes=[8], max_iter=40, activation='tanh')]),
        periodic=periodic,
        seed=rng.randrange(2**31),
    )
    if sampler['enlarge_per_dim'] == 100.0 and rng.random() < 0.5:
        sampler['enlarge_per_dim'] = 1.1
    run = dict(
        f_live=rng.choice([0.01, 0.05, 0.1, 0.1, 0.2, 0.3]),
        n_shell=rng.choice([1, 1, 1, n_batch, n_batch + 1, 3 * n_batch]),
        n_eff=rng.choice([0, 0, 30, 60, 120, 250]),
        discard_exploration=rng.random() < 0.4,
    )

    if rng.random() < profile.get('p_long_sampling', 0.08):
        # a long sampling phase: many batches from the same frozen bounds,
        # so that their proposal caches are refilled several times
        sampler['n_batch'] = rng.choice([20, 50])
        sampler['n_live'] = rng.choice([30, 40])
        run['n_eff'] = rng.choice([800, 1500, 2500])
        run['f_live'] = rng.choice([0.2, 0.3])
        run['n_shell'] = 1

    if rng.random() < profile.get('p_frequent_bounds', 0.1):
        # tiny batches and very frequent bounds: shells that end up empty
        # and are removed when exploration ends
        sampler['n_batch'] = rng.choice([1, 1, 2])
        sampler['n_live'] = rng.choice([10, 12, 16])
        sampler['n_update'] = rng.choice([1, 2, 3])
        sampler['n_networks'] = 0
        sampler['n_points_min'] = None
        sampler['enlarge_per_dim'] = rng.choice([1.1, 1.5])
        run['n_shell'] = 1
        run['n_eff'] = rng.choice([0, 20])
        run['f_live'] = rng.choice([0.05, 0.1, 0.2])

    if lik['family'] == 'lattice' or rng.random() < profile.get(
            'p_many_ellipsoids', 0.0):
        # many modes, small minimum cluster size, eager splitting: bounds
        # whose outer union has a dozen or more ellipsoids
        if lik['family'] != 'lattice':
            lik.update(workload.draw_lik_spec(
                rng, 2, family='lattice', blob=lik['blob'],
                prior=lik['prior'], vectorized=lik['vectorized']))
            n_dim = 2
        sampler['n_live'] = rng.choice([80, 100, 120])
        sampler['n_batch'] = 50
        sampler['n_points_min'] = lik['n_dim'] + 1
        sampler['split_threshold'] = rng.choice([0.3, 1])
        sampler['n_networks'] = 0
        sampler['n_update'] = None
        sampler['enlarge_per_dim'] = 1.1
        if sampler['periodic'] is not None:
            sampler['periodic'] = [q for q in sampler['periodic']
                                   if q < lik['n_dim']] or None
        run['f_live'] = rng.choice([0.2, 0.3])
        run['n_eff'] = rng.choice([500, 1000])
        run['n_shell'] = 1

    def pool_spec(p):
        if rng.random() >= p:
            return None
        return dict(flavour=rng.choice(['mp', 'executor', 'mpi', 'dask']),
                    size=rng.choice([1, 2, 3, 4, 8]))
    cfg = dict(
        lik=lik, sampler=sampler, run=run,
        pool_l=pool_spec(profile.get('p_pool_l', 0.3)),
        pool_s=pool_spec(0.45 if periodic is not None else
                         profile.get('p_pool_s', 0.15)),
        pool_seed=rng.randrange(2**31),
        ckpt=profile.get('ckpt', True) if 'ckpt' in profile else (
            rng.random() < 0.85),
        cost=rng.choice([0.0, 0.01, 0.5, 3.0]),
        cap_rows=CAP_ROWS,
    )
    return cfg


# ---------------------------------------------------------------------------
# the world
# ---------------------------------------------------------------------------

class World:
    """One simulated run: a real Sampler plus everything it can perceive."""

    def __init__(self, cfg, scratch, monitors=(), tag='w'):
        from nautilus import Sampler  # noqa: F401  (fail early)
        self.cfg = cfg
        self.scratch = scratch
        self.tag = tag
        self.monitors = list(monitors)
        self.filepath = (os.path.join(scratch, tag + '.h5')
                         if cfg['ckpt'] else None)
        self.pool_rng = random.Random(cfg['pool_seed'])
        self.stats = {}
        self.faults = {}
        self.probes = {}
        self.events = []
        self.sampler = None
        self.generation = 0
        self.verbose = False
        self.stdout = io.StringIO()
        self.in_run = False
        self.run_depth = 0
        self.last_run = None
        self.aborted = None
        self.batches_done = 0       # completed add_samples calls
        self.timeline = []          # per completed batch: state signature
        self.sample_shell_ctx = None
        self.nb_before_end = None
        self.in_write = None
        self.exc_kill = None
        CURRENT['world'] = self
        REC.reset()
        CLOCK.reset()
        REC.clock = CLOCK
        REC.cost = cfg.get('cost', 0.0)
        for m in self.monitors:
            m.attach(self)

    # -- bookkeeping ------------------------------------------------------
    def count(self, table, key, n=1):
        table[key] = table.get(key, 0) + n

    def signature(self):
        s = self.sampler
        if s is None:
            return ('none', )
        return (bool(s.explored), len(s.bounds), int(len(s.shell_t) > 0),
                bool(s._discard_exploration))

    def event(self, kind, **info):
        s = self.sampler
        self.events.append((kind, None if s is None else int(s.n_like),
                            round(CLOCK.now, 6), self.signature(),
                            tuple(sorted((k, repr(v)) for k, v in
                                         info.items()))))

    def notify(self, tag, **info):
        for m in self.monitors:
            m.on_event(self, tag, info)

    def violate(self, prop, cls, msg, **detail):
        raise Violation(prop, cls, msg, detail)

    # -- sampler construction ----------------------------------------------
    def new_sampler(self, how='fresh', resume=True):
        from nautilus import Sampler
        cfg = self.cfg
        sc = cfg['sampler']
        prior, lik, kw = workload.build_client(cfg['lik'])
        pool_l = simpool.make_pool(cfg['pool_l'], self.pool_rng, self.stats)
        pool_s = simpool.make_pool(cfg['pool_s'], self.pool_rng, self.stats)
        pool = None if (pool_l is None and pool_s is None) else (
            pool_l, pool_s)
        kwargs = dict(
            n_live=sc['n_live'], n_update=sc['n_update'],
            enlarge_per_dim=sc['enlarge_per_dim'],
            n_points_min=sc['n_points_min'],
            split_threshold=sc['split_threshold'],
            periodic=(None if sc['periodic'] is None else
                      np.array(sc['periodic'])),
            n_networks=sc['n_networks'],
            neural_network_kwargs=_nn_kwargs(sc['nn_kwargs']),
            n_batch=sc['n_batch'], n_like_new_bound=sc['n_like_new_bound'],
            pool=pool, seed=sc['seed'], filepath=self.filepath,
            resume=resume)
        kwargs.update(kw)
        existed = (resume and self.filepath is not None and
                   os.path.exists(self.filepath))
        old = self.sampler
        self.sampler = None
        try:
            s = Sampler(prior, lik, **kwargs)
        except Exception as e:
            self.sampler = None
            self.notify('resume_failed', how=how, exc=e, existed=existed,
                        old=old)
            raise
        self._instrument(s)
        self.sampler = s
        self.generation += 1
        self.lik = lik
        self.event('new_sampler', how=how, from_file=existed)
        self.notify('new_sampler', how=how, from_file=existed, old=old)
        return s

    def _instrument(self, s):
        for name in ('evaluate_likelihood', 'add_bound', 'add_samples',
                     'sample_shell', 'write', 'write_shell_update',
                     'update_shell_info'):
            if not callable(getattr(s, name, None)):
                raise SeamMissing('Sampler.' + name)
        world = self
        orig_eval = s.evaluate_likelihood
        orig_add_bound = s.add_bound
        orig_add_samples = s.add_samples
        orig_sample_shell = s.sample_shell
        orig_write = s.write
        orig_wsu = s.write_shell_update

        def evaluate_likelihood(points):
            world.notify('pre_eval', points=points)
            REC.begin_batch()
            rows0, calls0 = REC.n_rows, REC.n_calls
            out = orig_eval(points)
            world.notify('post_eval', points=points, out=out,
                         rows=REC.n_rows - rows0, calls=REC.n_calls - calls0)
            return out

        def add_bound(*a, **k):
            n0 = len(s.bounds)
            ok = orig_add_bound(*a, **k)
            if len(s.bounds) > n0 and n0 > 0:
                world.count(world.probes, 'bound_accepted')
                if len(s.shell_t) > 0:
                    world.count(world.probes, 'transfer_candidates_nonempty')
            elif n0 > 0:
                world.count(world.probes, 'bound_rejected')
            world.event('add_bound', ok=bool(ok))
            world.notify('post_add_bound', ok=ok)
            return ok

        def add_samples(shell, *a, **k):
            npend0 = int(np.sum(np.asarray(s.shell_t) >= 0)) if len(
                s.shell_t) else 0
            out = orig_add_samples(shell, *a, **k)
            npend1 = int(np.sum(np.asarray(s.shell_t) >= 0)) if len(
                s.shell_t) else 0
            if npend1 < npend0:
                world.count(world.probes, 'transfers_applied',
                            npend0 - npend1)
            world.batches_done += 1
            if not s.explored:
                world.nb_before_end = len(s.bounds)
                ob = getattr(s.bounds[-1], 'outer_bound', None)
                if ob is not None:
                    world.probes['max_ellipsoids_in_a_bound'] = max(
                        world.probes.get('max_ellipsoids_in_a_bound', 0),
                        len(ob.bounds))
            world.timeline.append(world.signature())
            world.event('add_samples', shell=int(shell))
            world.notify('post_add_samples', shell=shell)
            return out

        def sample_shell(index, *a, **k):
            world.sample_shell_ctx = index
            try:
                return orig_sample_shell(index, *a, **k)
            finally:
                world.sample_shell_ctx = None

        def _enter_write(kind):
            world.in_write = kind
            ek = world.exc_kill
            if ek is not None and not ek.get('active'):
                ek['seen'] += 1
                if ek['seen'] == ek['write']:
                    ek['active'] = True
                    ek['count'] = 0
                    ek['kind'] = kind

        def _leave_write():
            world.in_write = None
            ek = world.exc_kill
            if ek is not None and ek.get('active'):
                world.exc_kill = None       # the write was shorter than n
                world.count(world.faults, 'kill_in_write_not_reached')

        def write(*a, **k):
            world.count(world.probes, 'full_writes')
            _enter_write('full')
            try:
                out = orig_write(*a, **k)
            finally:
                world.in_write = None
            _leave_write()
            world.notify('post_write', full=True)
            return out

        def write_shell_update(*a, **k):
            world.count(world.probes, 'shell_updates')
            _enter_write('update')
            try:
                out = orig_wsu(*a, **k)
            finally:
                world.in_write = None
            _leave_write()
            world.notify('post_write', full=False)
            return out

        s.evaluate_likelihood = evaluate_likelihood
        s.add_bound = add_bound
        s.add_samples = add_samples
        s.sample_shell = sample_shell
        s.write = write
        s.write_shell_update = write_shell_update

    # -- operations --------------------------------------------------------
    def run_kwargs(self):
        r = self.cfg['run']
        return dict(f_live=r['f_live'], n_shell=r['n_shell'],
                    n_eff=r['n_eff'],
                    discard_exploration=r['discard_exploration'],
                    verbose=self.verbose)

    def do_run(self, n_like_max=None, timeout=None, label='run'):
        s = self.sampler
        kw = self.run_kwargs()
        cap = self.cfg.get('cap_rows', CAP_ROWS)
        nlm = cap if n_like_max is None else min(n_like_max, cap)
        kw['n_like_max'] = nlm
        if timeout is not None:
            kw['timeout'] = timeout
        explored0 = bool(s.explored)
        nb0 = len(s.bounds)
        info = dict(label=label, n_like_max=nlm, timeout=timeout,
                    n_like0=int(s.n_like), t0=CLOCK.now, batch0=REC.batch,
                    rows0=REC.n_rows, kwargs=kw, explored0=explored0)
        self.notify('pre_run', **info)
        self.in_run = True
        try:
            if self.verbose:
                with contextlib.redirect_stdout(self.stdout):
                    ret = s.run(**kw)
            else:
                ret = s.run(**kw)
        finally:
            self.in_run = False
        info['ret'] = ret
        info['hit_cap'] = (not ret) and s.n_like >= cap
        self.last_run = info
        if s.explored and not explored0:
            self.count(self.probes, 'exploration_ended')
            if self.nb_before_end is not None and len(
                    s.bounds) < self.nb_before_end:
                self.count(self.probes, 'empty_shells_removed',
                           self.nb_before_end - len(s.bounds))
            if type(s.bounds[0]).__name__ != 'UnitCube':
                self.count(self.probes, 'unit_cube_shell_removed')
        self.event(label, ret=bool(ret), nlm=nlm, timeout=timeout)
        self.notify('run_return', **info)
        return ret

    def resume(self, how):
        """Throw the sampler object away; only the file survives."""
        self.new_sampler(how=how)

    def apply(self, op):
        kind = op[0]
        s = self.sampler
        nb = self.cfg['sampler']['n_batch']
        if kind == 'run':
            self.count(self.faults, 'slice')
            return self.do_run(n_like_max=int(s.n_like) + op[1] * nb)
        if kind == 'run_to':
            self.count(self.faults, 'slice')
            return self.do_run(n_like_max=op[1], label='run_to')
        if kind == 'run_timeout':
            self.count(self.faults, 'timeout_slice')
            return self.do_run(timeout=op[1], label='run_timeout')
        if kind == 'finish':
            return self.do_run(label='finish')
        if kind == 'stop_resume':
            self.count(self.faults, 'stop_resume')
            if len(s.shell_t) > 0 and np.any(np.asarray(s.shell_t) >= 0):
                self.count(self.probes, 'resume_with_pending_transfers')
            self.notify('pre_resume', how='stop')
            return self.resume('stop')
        if kind == 'restart_fresh':
            # the user starts over at the same path: resume=False must
            # ignore and overwrite whatever file is there
            self.count(self.faults, 'restart_fresh_over_old_file')
            REC.reset()
            REC.clock = CLOCK
            REC.cost = self.cfg.get('cost', 0.0)
            self.batches_done = 0
            self.timeline = []
            self.notify('restart_fresh')
            return self.new_sampler(how='overwrite', resume=False)
        if kind == 'kill':
            REC.arm_kill(op[1], op[2])
            limit = None if len(op) < 4 or op[3] is None else (
                int(s.n_like) + op[3] * nb)
            try:
                self.do_run(n_like_max=limit, label='run_killable')
                REC.kill = None
                self.count(self.faults, 'kill_not_reached')
                return None
            except SimKill:
                self.in_run = False
                self.count(self.faults, 'kill')
                self.event('kill', batch=REC.batch, row=op[2])
                self.notify('kill')
                return self.resume('kill')
        if kind == 'kill_in_write':
            # process death delivered as an exception (SIGINT, a SIGTERM
            # handler that raises) at the n-th HDF5 mutation of the k-th
            # next checkpoint write
            install_h5_hooks()
            self.exc_kill = dict(write=int(op[1]), n=int(op[2]), seen=0)
            try:
                self.do_run(label='run_killable')
                self.exc_kill = None
                self.count(self.faults, 'kill_in_write_not_reached')
                return None
            except SimKill:
                self.in_run = False
                self.in_write = None
                self.count(self.faults, 'kill_in_write')
                self.event('kill_in_write', write=op[1], n=op[2])
                self.notify('kill')
                self.notify('kill_in_write')
                import gc
                gc.collect()
                if len(op) > 3 and op[3] == 'resume':
                    return self.resume('kill')
                return 'killed'
        if kind == 'stall':
            REC.stall[REC.batch + 1 + op[1]] = op[2]
            self.count(self.faults, 'stall')
            return None
        if kind == 'jump':
            CLOCK.advance(op[1])
            self.count(self.faults, 'clock_jump')
            return None
        if kind == 'toggle':
            self.count(self.faults, 'toggle')
            self.notify('pre_toggle', value=op[1])
            s.discard_exploration = bool(op[1])
            self.event('toggle', value=bool(op[1]))
            self.notify('post_toggle', value=op[1])
            return None
        if kind == 'observe':
            self.count(self.faults, 'observe')
            return observe(s, op[1])
        if kind == 'verbose':
            self.verbose = bool(op[1])
            return None
        raise ValueError('unknown op {}'.format(op))


_H5 = {'installed': False}


def install_h5_hooks():
    """Class-level taps on the h5py calls that change a file; they raise
    SimKill when the world has an exception-kill armed inside a write."""
    if _H5['installed']:
        return
    import h5py
    targets = [(h5py.Dataset, 'resize'), (h5py.Dataset, '__setitem__'),
               (h5py.Group, 'create_dataset'), (h5py.Group, 'create_group'),
               (h5py.AttributeManager, '__setitem__')]
    for cls, name in targets:
        if not callable(getattr(cls, name, None)):
            raise SeamMissing('h5py {}.{}'.format(cls.__name__, name))
        orig = getattr(cls, name)

        def make(orig):
            def wrapped(self, *a, **k):
                w = CURRENT['world']
                if w is not None and w.in_write is not None:
                    ek = w.exc_kill
                    if ek is not None and ek.get('active'):
                        ek['count'] += 1
                        if ek['count'] >= ek['n']:
                            w.exc_kill = None
                            w.last_exc_kill = dict(ek)
                            raise SimKill()
                return orig(self, *a, **k)
            return wrapped
        setattr(cls, name, make(orig))
    _H5['installed'] = True


def _nn_kwargs(d):
    d = dict(d)
    if 'hidden_layer_sizes' in d:
        d['hidden_layer_sizes'] = tuple(d['hidden_layer_sizes'])
    return d


ACCESSORS = ['log_z', 'n_eff', 'eta', 'f_live', 'posterior', 'evidence',
             'effective_sample_size', 'asymptotic_sampling_efficiency',
             'shell_bound_occupation', 'posterior_dict', 'log_v_live']


def observe(s, names):
    """Call read-only accessors; return digests of what they returned."""
    import warnings
    out = {}
    for name in names:
        try:
            with warnings.catch_warnings():
                warnings.simplefilter('ignore')
                if name in ('log_z', 'n_eff', 'eta', 'f_live', 'log_v_live'):
                    v = getattr(s, name)
                elif name == 'posterior':
                    v = list(s.posterior())
                elif name == 'posterior_dict':
                    if callable(s.prior):
                        v = None
                    else:
                        v = list(s.posterior(return_as_dict=True))
                elif name == 'shell_bound_occupation':
                    with np.errstate(all='ignore'):
                        v = s.shell_bound_occupation()
                else:
                    v = getattr(s, name)()
            out[name] = digest.digest(v)
        except Exception as e:
            out[name] = 'EXC:' + type(e).__name__
    return out


# ---------------------------------------------------------------------------
# monitors
# ---------------------------------------------------------------------------

class Monitor:
    prop = None

    def attach(self, world):
        pass

    def on_event(self, world, tag, info):
        pass

    def finish(self, world):
        pass


# ---------------------------------------------------------------------------
# execution
# ---------------------------------------------------------------------------

def _alarm(signum, frame):
    raise RunTimeout()


def execute(case, monitors=(), scratch=None, wall=None, keep_world=False):
    """Run one case.  Returns a result dict:
    status in {'ok', 'violation', 'sut_exception', 'timeout', 'harness'}."""
    install_clock()
    cfg = case['cfg']
    own = scratch is None
    if own:
        import tempfile
        from simkit.env import scratch_root
        scratch = tempfile.mkdtemp(prefix='verif-e1-', dir=scratch_root())
    res = dict(status='ok', violation=None, events_digest=None)
    world = None
    old_handler = None
    if wall:
        # CPU time of this process, not wall time: whether a workload is
        # discarded as too slow must not depend on the load of the machine.
        # Repeating: an alarm swallowed inside a callback (weakref, __del__)
        # must fire again.
        old_handler = signal.signal(signal.SIGVTALRM, _alarm)
        signal.setitimer(signal.ITIMER_VIRTUAL, wall, 1.0)
    try:
        np.seterr(all='ignore')
        import warnings
        warnings.simplefilter('ignore')
        world = World(cfg, scratch, monitors, tag=case.get('tag', 'w'))
        world.new_sampler('fresh')
        for i, op in enumerate(case['ops']):
            world.op_index = i
            world.event('op', i=i, op=op)
            out = world.apply(list(op))
            if op[0] == 'observe':
                world.event('observed', out=out)
        for m in world.monitors:
            m.finish(world)
    except Violation as v:
        res['status'] = 'violation'
        res['violation'] = dict(prop=v.prop, cls=v.cls, msg=v.msg,
                                detail=_jsonable(v.detail),
                                op_index=getattr(world, 'op_index', None))
    except SeamMissing as e:
        res['status'] = 'harness'
        res['error'] = 'seam missing: {}'.format(e)
    except RunTimeout:
        res['status'] = 'timeout'
    except SimKill:
        res['status'] = 'harness'
        res['error'] = 'stray SimKill'
    except Exception as e:
        res['status'] = 'sut_exception'
        res['error'] = '{}: {}'.format(type(e).__name__, e)
        tb = traceback.extract_tb(sys.exc_info()[2])
        res['where'] = [(os.path.basename(f.filename), f.lineno, f.name)
                        for f in tb[-6:]]
        res['in_nautilus'] = any('nautilus' in f.filename and
                                 '/verif/' not in f.filename for f in tb)
        res['traceback'] = traceback.format_exc()[-3000:]
        res['op_index'] = getattr(world, 'op_index', None)
        if not res['in_nautilus']:
            # an exception that never passed through nautilus code is a bug
            # of the harness, never a verdict about nautilus
            res['status'] = 'harness'
            res['error'] = 'harness exception: ' + res['error'] + '\n' + \
                res['traceback']
    finally:
        if wall:
            signal.setitimer(signal.ITIMER_VIRTUAL, 0)
            signal.signal(signal.SIGVTALRM, old_handler)
    if world is not None:
        res['events_digest'] = digest.digest(world.events)
        res['n_events'] = len(world.events)
        res['faults'] = dict(world.faults)
        res['probes'] = dict(world.probes)
        res['pool'] = dict(world.stats)
        res['rows'] = REC.n_rows
        res['sim_seconds'] = CLOCK.now - 1.0e9
        res['signatures'] = sorted(set(e[3] for e in world.events))
        res['sig_seq'] = digest.digest([e[3] for e in world.events])
        res['timeline'] = list(world.timeline)
        res['batches'] = world.batches_done
        if world.sampler is not None and res['status'] == 'ok':
            try:
                res['result'], res['result_parts'] = digest.result_digest(
                    world.sampler)
            except Exception as e:
                res['result'] = 'EXC:' + type(e).__name__
                res['result_parts'] = {}
            res['last_ret'] = (None if world.last_run is None else
                               bool(world.last_run['ret']))
            res['hit_cap'] = (False if world.last_run is None else
                              bool(world.last_run['hit_cap']))
        if keep_world:
            res['world'] = world
    if own and not keep_world:
        shutil.rmtree(scratch, ignore_errors=True)
    return res


def _jsonable(x):
    if isinstance(x, dict):
        return {str(k): _jsonable(v) for k, v in x.items()}
    if isinstance(x, (list, tuple)):
        return [_jsonable(v) for v in x]
    if isinstance(x, np.ndarray):
        return _jsonable(x.tolist()) if x.size <= 64 else (
            'array{}'.format(x.shape))
    if isinstance(x, (np.integer, )):
        return int(x)
    if isinstance(x, (np.floating, )):
        return float(x)
    if isinstance(x, (np.bool_, )):
        return bool(x)
    if isinstance(x, bytes):
        return x.hex()
    if isinstance(x, (str, int, float, bool)) or x is None:
        return x
    return repr(x)


# ---------------------------------------------------------------------------
# twin and history generation
# ---------------------------------------------------------------------------

def run_twin(cfg, scratch=None, wall=None):
    """Fault-free twin: one object, one uninterrupted run."""
    case = dict(cfg=cfg, ops=[['finish']], tag='twin')
    return execute(case, (), scratch=scratch, wall=wall)


def interesting_batches(timeline):
    """Batch indices (1-based count of completed batches) after which
    something interesting is pending: a bound was just inserted, exploration
    just ended, transfer candidates are pending."""
    ins, endexp, pend = [], [], []
    prev = (False, 1, 0, False)
    for i, sig in enumerate(timeline):
        if sig[1] > prev[1]:
            ins.append(i)        # the bound was inserted before batch i+1
        if sig[0] and not prev[0]:
            endexp.append(i + 1)
        if sig[2]:
            pend.append(i + 1)
        prev = sig
    return ins, endexp, pend


def draw_history(rng, cfg, timeline, profile=None, twin_probes=None):
    """Draw an operation history for a configuration whose fault-free twin
    produced `timeline` (one state signature per completed batch)."""
    profile = profile or {}
    B = len(timeline)
    nb = cfg['sampler']['n_batch']
    ckpt = cfg['ckpt']
    n_faults = rng.choice(profile.get('n_faults', [1, 2, 2, 3, 4, 6, 8]))
    ins, endexp, pend = interesting_batches(timeline)
    first_samp = endexp[0] if endexp else B
    cuts = set()
    for _ in range(n_faults):
        r = rng.random()
        if r < 0.25 and ins:
            b = rng.choice(ins) + rng.choice([0, 0, 1])
        elif r < 0.4 and endexp:
            b = endexp[0] + rng.choice([-1, 0, 0, 1])
        elif r < 0.55 and pend:
            b = rng.choice(pend)
        elif r < 0.62:
            b = rng.choice([0, 1, 1, 2])
        elif r < 0.82 and first_samp < B:
            b = rng.randrange(first_samp, B + 1)
        else:
            b = rng.randrange(0, B + 1)
        cuts.add(max(0, min(B, b)))
    cuts = sorted(cuts)
    kinds = profile.get('fault_kinds',
                        ['stop_resume', 'stop_resume', 'kill', 'kill',
                         'kill_in_write', 'slice', 'timeout', 'toggle',
                         'observe'])
    if not ckpt:
        kinds = [k for k in kinds if k not in ('stop_resume', 'kill',
                                                'kill_in_write')] or [
            'slice']
    ops = []
    if rng.random() < profile.get('p_verbose', 0.1):
        ops.append(['verbose', True])
    done = 0
    for b in cuts:
        k = rng.choice(kinds)
        if k == 'kill':
            # run up to b batches, then the kill lands in batch b+1
            if b - done > 0:
                ops.append(['run', b - done])
            ops.append(['kill', 0, rng.randrange(nb), None])
            done = b    # the killed batch is redone after the restart
            # the restarted sampler continues under the next op
            continue
        if b - done > 0:
            ops.append(['run', b - done])
            done = b
        if k == 'stop_resume':
            ops.append(['stop_resume'])
        elif k == 'slice':
            pass
        elif k == 'timeout':
            cost = cfg.get('cost', 0.0)
            nbt = rng.choice([1, 2, 5])
            if cost > 0:
                ops.append(['run_timeout', cost * nb * nbt - cost * 0.5])
                done += nbt
            else:
                ops.append(['run_timeout', 0.0])
        elif k == 'toggle':
            ops.append(['toggle', rng.random() < 0.5])
        elif k == 'kill_in_write':
            ops.append(['kill_in_write', rng.choice([1, 1, 2, 3]),
                        rng.choice([1, 2, 3, 5, 8, 13, 21]), 'resume'])
        elif k == 'run_to':
            ops.append(['run_to', rng.choice([
                0, 1, max(0, done * nb - 1), done * nb, done * nb + 1,
                done * nb + nb - 1, done * nb + nb + 1,
                done * nb + rng.randrange(1, 6 * nb + 1)])])
        elif k == 'observe':
            ops.append(['observe', rng.sample(
                ACCESSORS, rng.randrange(1, len(ACCESSORS)))])
        if rng.random() < 0.15:
            ops.append(['stall', 0, rng.choice([1.0, 60.0, 3600.0])])
    tp = twin_probes or {}
    if (tp.get('empty_shells_removed') or
            tp.get('max_ellipsoids_in_a_bound', 0) >= 11) and ckpt and \
            endexp and rng.random() < 0.8:
        # shells were renumbered when exploration ended: make sure the
        # object is thrown away and rebuilt from the file after that point
        extra = rng.choice([0, 1, 2, 5])
        if endexp[0] + extra > done:
            ops.append(['run', endexp[0] + extra - done])
        ops.append(rng.choice([['stop_resume'], ['stop_resume'],
                               ['kill', 0, 0, None]]))
    ops.append(['finish'])
    return ops

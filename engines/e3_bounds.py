"""E3 - bound-lifecycle engine (C07 C08 C09 C13).

A case is {bound: spec, ops: [...]}: a real bound object built from a seeded
point cloud and driven through an operation history (split, trim, serial
sampling, sampling through a simulated pool, storage round trips at arbitrary
positions).  `restart` writes the bound into a real HDF5 group, throws the
object away and reads it back - only what was written survives; the in-memory
original continues in lock-step as the reference model.
"""

import copy
import io
import os
import pickle
import random
import shutil
import tempfile
import traceback

import numpy as np
from scipy.special import gammaln, logsumexp

from simkit import simpool, digest

CLASSES = ['UnitCube', 'Ellipsoid', 'Mixture', 'Union', 'NeuralBound',
           'NautilusBound', 'PhaseShift']


class Violation(Exception):
    def __init__(self, prop, cls, msg, step=None, detail=None):
        Exception.__init__(self, msg)
        self.prop, self.cls, self.msg = prop, cls, msg
        self.step, self.detail = step, detail or {}


# ---------------------------------------------------------------------------
# taps: the harness counts hand-outs itself
# ---------------------------------------------------------------------------
_TAPS = {'done': False}
POOL_RESULTS = {'last': None}


def install_taps():
    if _TAPS['done']:
        return
    from nautilus.bounds import Union, NautilusBound
    for cls in (Union, NautilusBound):
        for name in ('sample', 'reset'):
            if not callable(getattr(cls, name, None)):
                raise RuntimeError('seam missing: {}.{}'.format(
                    cls.__name__, name))
    u_sample, u_reset = Union.sample, Union.reset
    n_sample, n_reset = NautilusBound.sample, NautilusBound.reset

    def union_sample(self, *a, **k):
        out = u_sample(self, *a, **k)
        self.__dict__['_vh'] = self.__dict__.get('_vh', 0) + len(out)
        return out

    def union_reset(self, *a, **k):
        u_reset(self, *a, **k)
        self.__dict__['_vh'] = 0
        self.__dict__['_vr'] = self.__dict__.get('_vr', 0) + 1

    def nb_sample(self, *a, **k):
        out = n_sample(self, *a, **k)
        if out is not None:
            self.__dict__['_vh'] = self.__dict__.get('_vh', 0) + len(out)
        return out

    def nb_reset(self, *a, **k):
        n_reset(self, *a, **k)
        self.__dict__['_vh'] = 0
        self.__dict__['_vr'] = self.__dict__.get('_vr', 0) + 1

    Union.sample, Union.reset = union_sample, union_reset
    NautilusBound.sample, NautilusBound.reset = nb_sample, nb_reset
    _TAPS['done'] = True


class RecordingPool(simpool.MPPool):
    """SimPool that keeps the objects the workers returned (the harness *is*
    the pool, so it sees every worker's copy)."""

    def __init__(self, size, rng, flavour='mp'):
        simpool.MPPool.__init__(self, size, rng)
        self.results = []

    def map(self, func, iterable):
        out = self._run(func, iterable)
        self.results.append(out)
        return out


# ---------------------------------------------------------------------------
# point clouds
# ---------------------------------------------------------------------------
CLOUDS = ['blob', 'two', 'three', 'elongated', 'curved', 'face', 'corner',
          'wrapped', 'fill', 'many', 'triangles', 'degenerate']


def draw_cloud(rng, d=None, kinds=None):
    d = d or rng.choice([2, 2, 3, 3, 4, 5, 6, 8])
    return dict(kind=rng.choice(kinds or CLOUDS), d=d,
                n=rng.choice([40, 80, 150, 300]), seed=rng.randrange(2**31),
                width=rng.choice([0.02, 0.05, 0.1]),
                thin=rng.choice([1e-3, 1e-4, 1e-6, 1e-7, 1e-8]))


def make_cloud(spec):
    g = np.random.default_rng(spec['seed'])
    d, n, w, kind = spec['d'], spec['n'], spec['width'], spec['kind']
    n = max(n, 4 * d + 8)

    def gauss(c, s, m):
        return c + g.normal(size=(m, d)) * s

    if kind == 'blob':
        pts = gauss(g.uniform(0.3, 0.7, d), w, n)
    elif kind == 'two':
        c1, c2 = g.uniform(0.15, 0.35, d), g.uniform(0.65, 0.85, d)
        pts = np.vstack([gauss(c1, w, n // 2), gauss(c2, w, n - n // 2)])
    elif kind == 'three':
        cs = [g.uniform(0.15, 0.85, d) for _ in range(3)]
        m = n // 3
        pts = np.vstack([gauss(cs[0], w, m), gauss(cs[1], w * 0.5, m),
                         gauss(cs[2], w, n - 2 * m)])
    elif kind == 'elongated':
        s = np.full(d, w * 0.2)
        s[0] = 0.25
        pts = gauss(np.full(d, 0.5), s, n)
        if d > 1:       # rotate in the first plane
            a = g.uniform(0, np.pi)
            r = np.eye(d)
            r[0, 0], r[0, 1], r[1, 0], r[1, 1] = (np.cos(a), -np.sin(a),
                                                  np.sin(a), np.cos(a))
            pts = (pts - 0.5) @ r.T + 0.5
    elif kind == 'curved':
        t = g.normal(size=n) * 0.2
        pts = gauss(np.full(d, 0.5), w * 0.3, n)
        pts[:, 0] += t
        pts[:, 1] += 1.5 * t * t - 0.1
    elif kind == 'face':
        pts = gauss(g.uniform(0.3, 0.7, d), w, n)
        pts[:, 0] = g.exponential(w, n)
    elif kind == 'corner':
        pts = g.exponential(w, (n, d))
        if g.random() < 0.5:
            pts[:, -1] = 1 - pts[:, -1] - 1e-9
    elif kind == 'many':
        k = int(g.integers(8, 15))
        cs = g.uniform(0.08, 0.92, (k, d))
        m = max(n // k, 3 * d + 4)
        pts = np.vstack([gauss(c, w * 0.15, m) for c in cs])
    elif kind == 'triangles':
        # two filled triangles whose bases face each other across a gap:
        # two disjoint ellipsoids that are jointly bigger than one
        m = n // 2
        tri = []
        for apex_x, base_x in ((0.1, 0.4), (0.9, 0.6)):
            v = np.array([[apex_x, 0.5], [base_x, 0.2], [base_x, 0.8]])
            a, b = g.random(m), g.random(m)
            flip = a + b > 1
            a[flip], b[flip] = 1 - a[flip], 1 - b[flip]
            tri.append(v[0] + a[:, None] * (v[1] - v[0]) +
                       b[:, None] * (v[2] - v[0]))
        xy = np.vstack(tri)
        pts = gauss(np.full(d, 0.5), w * 0.2, len(xy))
        pts[:, :2] = xy
    elif kind == 'degenerate':
        # two parameters that are almost exactly linearly dependent (not
        # axis-aligned): an extremely thin, rotated ellipsoid
        pts = gauss(g.uniform(0.4, 0.6, d), w, n)
        slope = g.uniform(0.3, 0.9) * g.choice([-1.0, 1.0])
        thin = spec.get('thin', 1e-7)
        pts[:, 1] = 0.5 + slope * (pts[:, 0] - 0.5) + g.normal(size=n) * thin
    elif kind == 'wrapped':
        pts = gauss(g.uniform(0.3, 0.7, d), w, n)
        pts[:, 0] = (g.normal(size=n) * w) % 1.0
    else:
        pts = g.random((n, d))
    if spec.get('scale', 1.0) != 1.0:
        # the same cloud in tiny units (only for bounds not restricted to
        # the unit cube): nothing may depend on the absolute scale
        ok = np.all((pts >= 0) & (pts < 1), axis=1)
        pts = pts[ok]
        while len(pts) < 4 * d + 8:
            pts = np.vstack([pts, g.uniform(0.4, 0.6, (4 * d + 8, d))])
        return np.ascontiguousarray(pts * spec['scale'])
    # keep what lies inside the unit cube; top up if too few remain
    ok = np.all((pts >= 0) & (pts < 1), axis=1)
    pts = pts[ok]
    while len(pts) < 4 * d + 8:
        extra = g.uniform(0.4, 0.6, (4 * d + 8, d))
        pts = np.vstack([pts, extra])
    return np.ascontiguousarray(pts)


def cloud_log_l(points):
    c = np.median(points, axis=0)
    return -np.sum((points - c)**2, axis=1)


# ---------------------------------------------------------------------------
# building bounds
# ---------------------------------------------------------------------------

def draw_bound_spec(rng, classes=None, d_max=8, clouds=None, networks=None,
                    scale_ok=False):
    cls = rng.choice(classes or CLASSES)
    d = rng.choice([x for x in [2, 2, 3, 3, 4, 5, 6, 8] if x <= d_max])
    if cls in ('UnitCube', 'Ellipsoid', 'Mixture', 'Union') and \
            rng.random() < 0.06:
        d = 1
    if cls in ('NeuralBound', 'NautilusBound'):
        d = min(d, 5)
    cloud = draw_cloud(rng, d, clouds)
    if d == 1 and cloud['kind'] in ('curved', 'elongated', 'triangles',
                                    'many', 'degenerate'):
        cloud['kind'] = rng.choice(['blob', 'two', 'three', 'face', 'fill'])
    if cls != 'Union' and cloud['kind'] == 'many':
        # a dozen clusters make NautilusBound.compute spend minutes in the
        # pairwise ellipsoid-overlap test; unions get this cloud, the others
        # a cheaper one
        cloud['kind'] = rng.choice(['two', 'three', 'blob'])
    if cloud['kind'] == 'many':
        cloud['d'] = d = min(d, 3)
    spec = dict(
        cls=cls, cloud=cloud,
        enlarge=rng.choice([1.01, 1.05, 1.1, 1.1, 1.5, 2.0]),
        n_points_min=rng.choice([None, d + 1, d + 3, 2 * d + 5]),
        unit=rng.random() < 0.6,
        member=rng.choice(['Ellipsoid', 'Mixture']),
        periodic=None,
        n_networks=rng.choice(networks or [0, 0, 1, 2]),
        nn_kwargs=rng.choice([
            dict(hidden_layer_sizes=[8], max_iter=40),
            dict(hidden_layer_sizes=[6, 4], max_iter=30, activation='tanh'),
            dict(hidden_layer_sizes=[10], max_iter=50, alpha=0.001),
            # over-regularised: the emulator predicts practically the same
            # score everywhere
            dict(hidden_layer_sizes=[8], max_iter=40, alpha=1000.0)]),
        split_threshold=rng.choice([100, 1, 1]),
        f_above=rng.choice([0.3, 0.5, 0.8]),
        log_v_target=rng.choice([0.0, -2.0, -6.0, -15.0, -40.0]),
        seed=rng.randrange(2**31))
    if cls in ('NautilusBound', 'PhaseShift') and (
            cloud['kind'] == 'wrapped' or rng.random() < 0.25):
        spec['periodic'] = sorted(rng.sample(range(d), rng.choice(
            [1, 1, min(2, d)])))
        if cloud['kind'] == 'wrapped' and 0 not in spec['periodic']:
            spec['periodic'] = sorted(spec['periodic'] + [0])
    if cls == 'PhaseShift' and spec['periodic'] is None:
        spec['periodic'] = [0]
    if cls == 'Union' and not spec['unit'] and scale_ok and \
            rng.random() < 0.3:
        spec['cloud']['scale'] = rng.choice([1e-40, 1e-120, 1e30])
    return spec


class Subject:
    pass


def _nn(d):
    d = dict(d)
    if 'hidden_layer_sizes' in d:
        d['hidden_layer_sizes'] = tuple(d['hidden_layer_sizes'])
    return d


def build(spec):
    from nautilus.bounds import (UnitCube, Ellipsoid, Union, NeuralBound,
                                 NautilusBound, PhaseShift,
                                 UnitCubeEllipsoidMixture)
    s = Subject()
    s.spec = spec
    s.points = make_cloud(spec['cloud'])
    s.d = s.points.shape[1]
    s.rng = np.random.default_rng(spec['seed'])
    s.log_l = cloud_log_l(s.points)
    s.log_l_min = np.quantile(s.log_l, 1 - spec['f_above'])
    s.above = s.points[s.log_l >= s.log_l_min]
    cls = spec['cls']
    s.unit_restricted = False
    s.trimmed = set()
    if cls == 'UnitCube':
        s.obj = UnitCube.compute(s.d, rng=s.rng)
        s.unit_restricted = True
        s.construction = None
    elif cls == 'Ellipsoid':
        s.obj = Ellipsoid.compute(s.points, enlarge_per_dim=spec['enlarge'],
                                  rng=s.rng)
        s.construction = s.points
    elif cls == 'Mixture':
        s.obj = UnitCubeEllipsoidMixture.compute(
            s.points, enlarge_per_dim=spec['enlarge'], rng=s.rng)
        s.construction = s.points
    elif cls == 'Union':
        member = Ellipsoid if spec['member'] == 'Ellipsoid' else \
            UnitCubeEllipsoidMixture
        npm = spec['n_points_min']
        s.obj = Union.compute(
            s.points, enlarge_per_dim=spec['enlarge'], n_points_min=npm,
            unit=spec['unit'], bound_class=member, rng=s.rng)
        s.unit_restricted = bool(spec['unit'])
        s.construction = s.points
    elif cls == 'NeuralBound':
        s.obj = NeuralBound.compute(
            s.points, s.log_l, s.log_l_min, enlarge_per_dim=spec['enlarge'],
            n_networks=spec['n_networks'],
            neural_network_kwargs=_nn(spec['nn_kwargs']), rng=s.rng)
        s.construction = None
    elif cls == 'NautilusBound':
        per = None if spec['periodic'] is None else np.array(
            spec['periodic'])
        log_v_target = float(spec.get('log_v_target', -6.0))
        s.obj = NautilusBound.compute(
            s.points, s.log_l, s.log_l_min, log_v_target,
            enlarge_per_dim=spec['enlarge'],
            n_points_min=spec['n_points_min'],
            split_threshold=spec['split_threshold'], periodic=per,
            n_networks=spec['n_networks'],
            neural_network_kwargs=_nn(spec['nn_kwargs']), rng=s.rng)
        s.unit_restricted = True
        s.construction = None
    elif cls == 'PhaseShift':
        s.obj = PhaseShift.compute(s.above, np.array(spec['periodic']))
        s.construction = None
    else:
        raise ValueError(cls)
    s.index = {r.tobytes(): i for i, r in enumerate(s.points)}
    return s


# ---------------------------------------------------------------------------
# storage round trip
# ---------------------------------------------------------------------------

def cls_of(obj):
    return type(obj)


def write_to(path, obj, name='b'):
    import h5py
    with h5py.File(path, 'w') as f:
        obj.write(f.create_group(name))


def update_in(path, obj, name='b'):
    import h5py
    with h5py.File(path, 'r+') as f:
        obj.update(f[name])


def read_from(path, klass, rng, name='b'):
    import h5py
    with h5py.File(path, 'r') as f:
        if klass.__name__ in ('PhaseShift', ):
            return klass.read(f[name])
        return klass.read(f[name], rng=rng)


def clone_rng(rng):
    r = np.random.default_rng()
    r.bit_generator.state = copy.deepcopy(rng.bit_generator.state)
    return r


def probe_points(s, g, n=200):
    """Uniform, construction and boundary-near probe points."""
    d = s.d
    out = [g.random((n, d))]
    out.append(s.points[g.integers(0, len(s.points), min(n, len(s.points)))])
    # around the construction points at several scales -> near the surfaces
    base = s.points[g.integers(0, len(s.points), n)]
    for scale in (0.01, 0.05, 0.2):
        out.append(base + g.normal(size=base.shape) * scale)
    return np.ascontiguousarray(np.vstack(out))


def has_sample(obj):
    return callable(getattr(obj, 'sample', None))


def has_update(obj):
    return callable(getattr(obj, 'update', None))


# ---------------------------------------------------------------------------
# oracles
# ---------------------------------------------------------------------------

def _bad(prop, cls, msg, step, **d):
    raise Violation(prop, cls, msg, step, d)


def in_unit(p):
    return np.all((p >= 0) & (p < 1), axis=-1)


def check_c07_samples(s, obj, pts, step, how):
    if len(pts) == 0:
        return
    inb = np.asarray(obj.contains(pts))
    if not np.all(inb):
        j = int(np.flatnonzero(~inb)[0])
        _bad('C07', 'sample_not_contained', '{} of {}: sampled point {} is '
             'not contained in the bound it was drawn from'.format(
                 how, s.spec['cls'], j), step, point=pts[j])
    if s.unit_restricted and not np.all(in_unit(pts)):
        j = int(np.flatnonzero(~in_unit(pts))[0])
        _bad('C07', 'sample_outside_unit_cube', '{} of {}: sampled point {} '
             'lies outside the unit hypercube'.format(
                 how, s.spec['cls'], j), step, point=pts[j])


def check_c07_enclosure(s, obj, step, g):
    cls = s.spec['cls']
    if s.construction is not None and s.spec['enlarge'] > 1.0:
        pts = s.construction
        if cls == 'Union':
            keep = np.array([i not in s.trimmed for i in range(len(pts))])
            pts = pts[keep]
        if len(pts):
            inb = np.asarray(obj.contains(pts))
            if not np.all(inb):
                j = int(np.flatnonzero(~inb)[0])
                regime = ''
                if s.spec['cloud']['kind'] == 'degenerate':
                    regime = ' [degenerate cloud, relative thickness ' \
                        '{:g}]'.format(s.spec['cloud'].get('thin', 0))
                _bad('C07', 'construction_point_not_enclosed',
                     '{}: construction point {} is not contained (enlarge '
                     '{}){}'.format(cls, j, s.spec['enlarge'], regime), step,
                     point=pts[j])
    if cls in ('NeuralBound', 'NautilusBound'):
        p = probe_points(s, g, 100)
        inb = np.asarray(obj.contains(p))
        if cls == 'NeuralBound':
            outer = np.asarray(obj.outer_bound.contains(p))
        else:
            q = p if obj.shift is None else obj.shift.transform(p)
            outer = np.asarray(obj.outer_bound.contains(q))
        if np.any(inb & ~outer):
            j = int(np.flatnonzero(inb & ~outer)[0])
            _bad('C07', 'contains_outside_outer_bound', '{} contains a point '
                 'outside its outer ellipsoidal bound'.format(cls), step,
                 point=p[j])


def union_sets(s, u):
    """Per-ellipsoid sets of construction-point indices (or raise)."""
    sets = []
    for j, pb in enumerate(u.points_bounds):
        idx = []
        for r in np.ascontiguousarray(pb):
            i = s.index.get(r.tobytes())
            if i is None:
                return None, j
            idx.append(i)
        sets.append(frozenset(idx))
        if len(idx) != len(sets[-1]):
            return None, j
    return sets, None


def check_c13_records(s, u, step, what):
    lens = dict(bounds=len(u.bounds), points_bounds=len(u.points_bounds),
                log_v_all=len(u.log_v_all), block=len(u.block))
    if len(set(lens.values())) != 1:
        _bad('C13', 'records_inconsistent', 'after {} the per-ellipsoid '
             'records have lengths {}'.format(what, lens), step)
    sets, badj = union_sets(s, u)
    if sets is None:
        _bad('C13', 'foreign_point', 'after {} ellipsoid {} holds a row that '
             'is not a construction point (or a row twice)'.format(
                 what, badj), step)
    allidx = [i for st in sets for i in st]
    if len(allidx) != len(set(allidx)):
        _bad('C13', 'point_in_two_ellipsoids', 'after {} a construction '
             'point is recorded under two ellipsoids'.format(what), step)
    want = set(range(len(s.points))) - s.trimmed
    if set(allidx) != want:
        _bad('C13', 'points_lost_or_resurrected', 'after {} the ellipsoids '
             'hold {} points, construction points not yet trimmed: {} ({} '
             'missing, {} extra)'.format(
                 what, len(allidx), len(want), len(want - set(allidx)),
                 len(set(allidx) - want)), step)
    for j, st in enumerate(sets):
        if len(st) < 2 * u.n_points_min and not bool(u.block[j]):
            _bad('C13', 'may_split_flag_wrong', 'after {} ellipsoid {} holds '
                 '{} points (< 2 x n_points_min = {}) but its may-split flag '
                 'allows a split: the flag does not belong to this '
                 'ellipsoid'.format(what, j, len(st), 2 * u.n_points_min),
                 step)
    for j, b in enumerate(u.bounds):
        if not abs(float(b.log_v) - float(u.log_v_all[j])) <= 1e-9:
            _bad('C13', 'volume_record_stale', 'after {} log_v_all[{}] = {!r}'
                 ' but the ellipsoid has {!r}'.format(
                     what, j, float(u.log_v_all[j]), float(b.log_v)), step)
    return sets


def conservation_state(obj):
    return dict(acc=int(obj.n_sample) - int(obj.n_reject),
                cache=len(obj.points), vh=obj.__dict__.get('_vh', 0),
                vr=obj.__dict__.get('_vr', 0),
                n_sample=int(obj.n_sample), n_reject=int(obj.n_reject))


def check_conservation(obj, before, step, what, weak=False):
    after = conservation_state(obj)
    if not (0 <= after['n_reject'] <= after['n_sample']):
        _bad('C08', 'counter_range', 'after {}: n_reject {} / n_sample '
             '{}'.format(what, after['n_reject'], after['n_sample']), step)
    if before is None or after['vr'] != before['vr']:
        lhs, rhs = after['acc'], after['cache'] + after['vh']
    else:
        lhs = after['acc'] - before['acc']
        rhs = (after['cache'] - before['cache']) + (after['vh'] -
                                                    before['vh'])
    ok = lhs >= rhs if weak else lhs == rhs
    if not ok:
        _bad('C08', 'conservation', 'after {} on {}: accepted proposals '
             '(n_sample - n_reject) changed by {} but cache + hand-outs '
             'changed by {}'.format(what, type(obj).__name__, lhs, rhs),
             step)
    return after


# ---------------------------------------------------------------------------
# statistical oracles (C08 b, c, d)
# ---------------------------------------------------------------------------

def ellipsoid_box(e):
    """Axis-aligned bounding box of an Ellipsoid."""
    half = np.sqrt(np.sum(np.asarray(e.B)**2, axis=1))
    return e.c - half, e.c + half


def member_box(m, d):
    if hasattr(m, 'dim_cube'):
        lo, hi = np.zeros(d), np.ones(d)
        if m.ellipsoid is not None:
            l, h = ellipsoid_box(m.ellipsoid)
            lo[~m.dim_cube], hi[~m.dim_cube] = l, h
        return lo, hi
    return ellipsoid_box(m)


def region_box(members, d, unit):
    los, his = zip(*[member_box(m, d) for m in members])
    lo, hi = np.min(los, axis=0), np.max(his, axis=0)
    if unit:
        lo, hi = np.maximum(lo, 0.0), np.minimum(hi, 1.0)
    return lo, hi


def clopper_pearson(k, n, alpha):
    from scipy.stats import beta
    lo = 0.0 if k == 0 else float(beta.ppf(alpha / 2, k, n - k + 1))
    hi = 1.0 if k == n else float(beta.ppf(1 - alpha / 2, k + 1, n - k))
    return lo, hi


def hyper_p(ka, a, kb, b):
    """Two-sided exact hypergeometric p-value for ka of a vs kb of b."""
    from scipy.stats import hypergeom
    K = ka + kb
    if K == 0 or K == a + b:
        return 1.0
    rv = hypergeom(a + b, K, a)
    return float(min(1.0, 2 * min(rv.cdf(ka), rv.sf(ka - 1))))


def stat_tests(s, obj, A, g, step, n_ref=20000, max_draws=3_000_000,
               alpha=1e-12):
    """A: points the bound handed out (already in the frame of its members).
    Compare with uniform points filtered through contains()."""
    cls = s.spec['cls']
    if cls == 'Union':
        members, unit = obj.bounds, obj.cube is not None

        def region(p):
            return np.asarray(obj.contains(p))
        sum_log_v = float(logsumexp(obj.log_v_all))
    else:       # NautilusBound, in shifted coordinates
        members, unit = obj.outer_bound.bounds, True

        def region(p):
            r = np.asarray(obj.outer_bound.contains(p))
            if len(obj.neural_bounds):
                r = r & np.any([nb.contains(p) for nb in obj.neural_bounds],
                               axis=0)
            return r
        sum_log_v = float(logsumexp(obj.outer_bound.log_v_all))
    d = s.d
    lo, hi = region_box(members, d, unit)
    box_v = float(np.prod(hi - lo))
    ref, draws, hits = [], 0, 0
    while hits < n_ref and draws < max_draws:
        p = lo + g.random((200000, d)) * (hi - lo)
        ok = region(p)
        ref.append(p[ok])
        hits += int(np.sum(ok))
        draws += len(p)
    Bref = np.vstack(ref)
    info = dict(draws=draws, hits=hits, a=len(A), tests=0, min_p=1.0,
                box_v=box_v)
    if hits < 200 or len(A) < 200:
        info['skipped'] = 'too few reference points'
        return info
    # (b) uniformity: multiplicity classes and random half-spaces
    def mult(p):
        return np.sum([np.asarray(m.contains(p)) for m in members], axis=0)
    cells = []
    mA, mB = mult(A), mult(Bref)
    if np.any(mB >= 2) or np.any(mA >= 2):
        cells.append(('in several members', mA >= 2, mB >= 2))
    for _ in range(6):
        w = g.normal(size=d)
        y0 = Bref[g.integers(0, len(Bref))]
        cells.append(('half-space', (A - y0) @ w > 0, (Bref - y0) @ w > 0))
    for name, ca, cb in cells:
        p = hyper_p(int(np.sum(ca)), len(A), int(np.sum(cb)), len(Bref))
        info['tests'] += 1
        info['min_p'] = min(info['min_p'], p)
        if p < alpha:
            _bad('C08', 'not_uniform', '{}: cell "{}" holds {}/{} sampled '
                 'points but {}/{} uniform reference points (exact '
                 'hypergeometric p = {:.3g})'.format(
                     cls, name, int(np.sum(ca)), len(A), int(np.sum(cb)),
                     len(Bref), p), step)
    # (c) volume calibration
    v_lo, v_hi = [box_v * x for x in clopper_pearson(hits, draws, alpha)]
    if cls == 'Union':
        q_lo, q_hi = clopper_pearson(int(obj.n_sample) - int(obj.n_reject),
                                     int(obj.n_sample), alpha)
        r_lo, r_hi = np.exp(sum_log_v) * q_lo, np.exp(sum_log_v) * q_hi
        reported = float(np.exp(obj.log_v))
    else:
        ob = obj.outer_bound
        q1 = clopper_pearson(int(ob.n_sample) - int(ob.n_reject),
                             int(ob.n_sample), alpha)
        q2 = clopper_pearson(int(obj.n_sample) - int(obj.n_reject),
                             int(obj.n_sample), alpha)
        r_lo = np.exp(sum_log_v) * q1[0] * q2[0]
        r_hi = np.exp(sum_log_v) * q1[1] * q2[1]
        reported = float(np.exp(obj.log_v))
    info.update(v_true=(v_lo, v_hi), v_reported=(r_lo, r_hi),
                reported=reported)
    if not (r_lo <= reported * (1 + 1e-9) and reported <= r_hi * (1 + 1e-9)):
        _bad('C08', 'volume_formula', '{}: reported volume {!r} is not sum '
             'of member volumes x acceptance fraction'.format(cls, reported),
             step)
    if r_hi < v_lo or v_hi < r_lo:
        _bad('C08', 'volume_miscalibrated', '{}: reported volume in [{:.6g}, '
             '{:.6g}] (its own Monte-Carlo error at {:g}) but the true '
             'measure of the contains() region is in [{:.6g}, {:.6g}]'.format(
                 cls, r_lo, r_hi, alpha, v_lo, v_hi), step)
    return info


def check_ellipsoid_volume(e, step):
    d = e.n_dim
    log_ball = d * np.log(2.) + d * gammaln(1.5) - gammaln(d / 2.0 + 1)
    want = log_ball - np.linalg.slogdet(np.asarray(e.B_inv))[1]
    if not abs(float(e.log_v) - want) <= 1e-8 * max(1.0, abs(want)):
        _bad('C08', 'ellipsoid_volume', 'closed-form log-volume {!r} does '
             'not match the matrix used by contains() ({!r})'.format(
                 float(e.log_v), float(want)), step)


# ---------------------------------------------------------------------------
# execution
# ---------------------------------------------------------------------------

def all_ellipsoids(obj):
    name = type(obj).__name__
    if name == 'Ellipsoid':
        return [obj]
    if name == 'UnitCubeEllipsoidMixture':
        return [obj.ellipsoid] if obj.ellipsoid is not None else []
    if name == 'Union':
        return [e for m in obj.bounds for e in all_ellipsoids(m)]
    if name == 'NeuralBound':
        return [obj.outer_bound]
    if name == 'NautilusBound':
        return ([e for nb in obj.neural_bounds for e in all_ellipsoids(nb)] +
                all_ellipsoids(obj.outer_bound))
    return []


def sample_from(obj, n, pool=None):
    name = type(obj).__name__
    if name in ('NautilusBound', 'UnitCube') and pool is not None:
        return obj.sample(n, pool=pool)
    return obj.sample(n)


class CaseTimeout(BaseException):
    pass


def _alarm(signum, frame):
    raise CaseTimeout()


def execute(case, props=('C07', 'C08', 'C09', 'C13'), scratch=None,
            cpu_limit=60):
    """Run one bound life cycle under a CPU-time limit (a bound whose
    networks accept practically nothing makes sample() spin for ever: such a
    life cycle is discarded as 'timeout', it is neither a pass nor a
    verdict).  Returns a result dict."""
    import signal
    old = signal.signal(signal.SIGVTALRM, _alarm)
    signal.setitimer(signal.ITIMER_VIRTUAL, cpu_limit, 1.0)
    try:
        return _execute(case, props, scratch)
    except CaseTimeout:
        return dict(status='timeout', stats=dict(ops={}))
    finally:
        signal.setitimer(signal.ITIMER_VIRTUAL, 0)
        signal.signal(signal.SIGVTALRM, old)


def _execute(case, props=('C07', 'C08', 'C09', 'C13'), scratch=None):
    import warnings
    warnings.simplefilter('ignore')
    np.seterr(all='ignore')
    install_taps()
    props = set(props)
    own = scratch is None
    if own:
        from simkit.env import scratch_root
        scratch = tempfile.mkdtemp(prefix='verif-e3-', dir=scratch_root())
    stats = dict(ops={}, samples=0, restarts=0, lockstep_samples=0,
                 splits_ok=0, splits_refused=0, trims_ok=0, trims_refused=0,
                 pool_merges=0, stat=None, contains_probes=0)
    res = dict(status='ok', stats=stats)
    step = -1
    try:
        spec = case['bound']
        s = build(spec)
        g = np.random.default_rng(case.get('qseed', 1))
        prng = random.Random(case.get('qseed', 1))
        obj = s.obj
        klass = cls_of(obj)
        cname = spec['cls']
        twin = None                 # read-back copy running in lock-step
        path0 = os.path.join(scratch, 'w0.h5')
        wrote0 = False
        handed = []                 # points handed out (for stat tests)
        cons = {}
        if cname in ('Union', 'NautilusBound') and 'C08' in props:
            cons['obj'] = conservation_state(obj)
            if cname == 'NautilusBound':
                cons['outer'] = conservation_state(obj.outer_bound)
        if cname == 'Union' and 'C13' in props:
            check_c13_records(s, obj, step, 'construction')
        if 'C07' in props:
            check_c07_enclosure(s, obj, step, g)
        if 'C08' in props:
            for e in all_ellipsoids(obj):
                check_ellipsoid_volume(e, step)

        expanded = []
        for op in case['ops']:
            if op[0] == 'split_many':
                allow = bool(op[1]) or spec.get('member') != 'Ellipsoid'
                expanded += [['split', allow, 'many']] * int(op[2])
            else:
                expanded.append(op)
        skip_splits = False
        for step, op in enumerate(expanded):
            kind = op[0]
            if kind == 'split' and len(op) > 2:
                if skip_splits:
                    continue        # the series ended at the first refusal
            else:
                skip_splits = False
            stats['ops'][kind] = stats['ops'].get(kind, 0) + 1
            if kind in ('split', 'trim'):
                if cname != 'Union':
                    continue
                twin = None     # a read-back union is not restructured
                before_sets, _ = union_sets(s, obj)
                before_ids = [id(b) for b in obj.bounds]
                before_sum = float(logsumexp(obj.log_v_all))
                try:
                    if kind == 'split':
                        ok = obj.split(allow_overlap=bool(op[1]))
                    else:
                        ok = obj.trim(op[1])
                except Exception as e:
                    if 'C13' in props:
                        _bad('C13', 'operation_raised', '{} raised {}: '
                             '{}'.format(op, type(e).__name__, e), step,
                             traceback=traceback.format_exc()[-1500:])
                    raise
                if kind == 'split':
                    stats['splits_ok' if ok else 'splits_refused'] += 1
                    if not ok and len(op) > 2:
                        skip_splits = True
                    stats['max_members'] = max(stats.get('max_members', 0),
                                               len(obj.bounds))
                else:
                    stats['trims_ok' if ok else 'trims_refused'] += 1
                after_sets, _ = union_sets(s, obj)
                if ok:
                    # an incremental update records sampling progress only;
                    # it cannot (and is never used to) follow a restructured
                    # union, so an earlier full write is void from here on
                    wrote0 = False
                if kind == 'trim' and ok and after_sets is not None and \
                        before_sets is not None:
                    gone = [st for st in before_sets if st not in after_sets]
                    for st in gone:
                        s.trimmed |= set(st)
                if 'C13' in props:
                    if not ok:
                        if [id(b) for b in obj.bounds] != before_ids or \
                                after_sets != before_sets:
                            _bad('C13', 'refused_op_changed_state', '{} '
                                 'returned False but ellipsoids or points '
                                 'changed'.format(op), step)
                    sets = check_c13_records(s, obj, step, str(op))
                    if ok and kind == 'split':
                        new = [st for st in sets if st not in before_sets]
                        old = [st for st in before_sets if st not in sets]
                        if len(new) != 2 or len(old) != 1 or (
                                new[0] | new[1]) != old[0] or (
                                new[0] & new[1]):
                            _bad('C13', 'split_not_a_partition', 'a '
                                 'successful split replaced {} point sets by '
                                 '{} that do not partition the '
                                 'parent'.format(len(old), len(new)), step)
                        if min(len(new[0]), len(new[1])) < obj.n_points_min:
                            _bad('C13', 'split_below_minimum', 'a split '
                                 'produced an ellipsoid with {} points, '
                                 'minimum is {}'.format(
                                     min(len(new[0]), len(new[1])),
                                     obj.n_points_min), step)
                        if float(logsumexp(obj.log_v_all)) > before_sum + \
                                1e-9:
                            _bad('C13', 'split_increased_volume', 'a '
                                 'successful split increased the summed '
                                 'ellipsoid volume: {!r} -> {!r}'.format(
                                     before_sum, float(logsumexp(
                                         obj.log_v_all))), step)
                    if ok and kind == 'trim':
                        if len(sets) != len(before_sets) - 1:
                            _bad('C13', 'trim_count', 'a successful trim '
                                 'changed the number of ellipsoids from {} '
                                 'to {}'.format(len(before_sets), len(sets)),
                                 step)
                if 'C07' in props:
                    check_c07_enclosure(s, obj, step, g)
                if 'C08' in props:
                    cons['obj'] = check_conservation(obj, cons.get('obj'),
                                                     step, str(op))
                    for e in all_ellipsoids(obj):
                        check_ellipsoid_volume(e, step)
                    handed = []
                continue

            if kind in ('sample', 'sample_pool'):
                if not has_sample(obj):
                    continue
                n = int(op[1])
                pool = None
                if kind == 'sample_pool':
                    if cname != 'NautilusBound':
                        continue
                    from nautilus.pool import NautilusPool
                    rp = RecordingPool(op[2], random.Random(op[3]))
                    pool = NautilusPool(rp)
                    twin = None     # the pool path draws seeds: the copy
                    #                 would need the same pool; keep it simple
                before_obj = cons.get('obj')
                if cname == 'NautilusBound' and 'C08' in props:
                    pre = conservation_state(obj)
                    pre_outer = conservation_state(obj.outer_bound)
                try:
                    pts = sample_from(obj, n, pool)
                except Exception as e:
                    if 'C13' in props and cname == 'Union':
                        _bad('C13', 'operation_raised', '{} raised {}: '
                             '{}'.format(op, type(e).__name__, e), step,
                             traceback=traceback.format_exc()[-1500:])
                    raise
                stats['samples'] += len(pts)
                if len(pts) != n:
                    _bad('C07', 'sample_count', 'sample({}) returned {} '
                         'points'.format(n, len(pts)), step)
                if 'C07' in props:
                    check_c07_samples(s, obj, pts, step, kind)
                if cname in ('Union', 'NautilusBound'):
                    if cname == 'NautilusBound' and obj.shift is not None:
                        handed.append(obj.shift.transform(pts))
                    else:
                        handed.append(pts)
                if 'C08' in props and cname in ('Union', 'NautilusBound'):
                    cons['obj'] = check_conservation(obj, before_obj, step,
                                                     str(op))
                    if cname == 'NautilusBound':
                        merged = pool is not None and len(
                            pool.pool.results) > 0
                        if merged:
                            stats['pool_merges'] += 1
                            ws = [w for r in pool.pool.results for w in r]
                            post = conservation_state(obj)
                            post_outer = conservation_state(obj.outer_bound)
                            want = dict(
                                n_sample=sum(int(w.n_sample) for w in ws),
                                n_reject=sum(int(w.n_reject) for w in ws),
                                cache=sum(len(w.points) for w in ws))
                            got = dict(
                                n_sample=post['n_sample'] - pre['n_sample'],
                                n_reject=post['n_reject'] - pre['n_reject'],
                                cache=post['cache'] + n - pre['cache'])
                            if got != want:
                                _bad('C08', 'pool_merge', 'after a pool '
                                     'merge the bound\'s counters changed '
                                     'by {} but the workers returned '
                                     '{}'.format(got, want), step)
                            want_o = dict(
                                n_sample=sum(int(w.outer_bound.n_sample)
                                             for w in ws),
                                n_reject=sum(int(w.outer_bound.n_reject)
                                             for w in ws))
                            got_o = dict(
                                n_sample=post_outer['n_sample'] -
                                pre_outer['n_sample'],
                                n_reject=post_outer['n_reject'] -
                                pre_outer['n_reject'])
                            if got_o != want_o:
                                _bad('C08', 'pool_merge_outer', 'after a '
                                     'pool merge the outer union\'s counters '
                                     'changed by {} but the workers\' outer '
                                     'unions counted {}'.format(got_o,
                                                                want_o), step)
                            for w in ws:
                                if int(w.n_sample) - int(w.n_reject) != len(
                                        w.points):
                                    _bad('C08', 'conservation', 'a worker '
                                         'copy accepted {} proposals but '
                                         'returned {} points'.format(
                                             int(w.n_sample) - int(
                                                 w.n_reject), len(w.points)),
                                         step)
                        cons['outer'] = check_conservation(
                            obj.outer_bound, cons.get('outer'), step,
                            str(op) + ' (outer union)', weak=merged)
                if twin is not None and 'C09' in props:
                    pts2 = sample_from(twin, n)
                    stats['lockstep_samples'] += 1
                    if np.asarray(pts2).tobytes() != np.asarray(
                            pts).tobytes():
                        _bad('C09', 'sample_stream_differs', 'sample stream '
                             'of the read-back {} differs from the original '
                             '({} points requested)'.format(cname, n), step)
                continue

            if kind == 'big':
                if 'C07' not in props:
                    continue
                nbig = int(op[1])
                if cname == 'NautilusBound':
                    pts = obj.sample(nbig)
                else:
                    pts = g.random((nbig, s.d))
                whole = np.asarray(obj.contains(pts))
                parts = np.concatenate([
                    np.asarray(obj.contains(pts[i:i + 5000]))
                    for i in range(0, nbig, 5000)])
                stats['samples'] += nbig
                if whole.tobytes() != parts.tobytes():
                    j = int(np.flatnonzero(whole != parts)[0])
                    _bad('C07', 'contains_not_pointwise', '{}.contains() of '
                         '{} points at once disagrees with the same points '
                         'in pieces of 5000 (first at row {})'.format(
                             cname, nbig, j), step)
                if cname == 'NautilusBound':
                    check_c07_samples(s, obj, pts, step, 'sample(big)')
                    handed.append(pts if obj.shift is None else
                                  obj.shift.transform(pts))
                    if 'C08' in props:
                        cons['obj'] = conservation_state(obj)
                        cons['outer'] = conservation_state(obj.outer_bound)
                continue
            if kind == 'write0':
                if cname == 'UnitCube' or not has_update(obj):
                    continue
                write_to(path0, obj)
                wrote0 = True
                continue

            if kind in ('restart', 'update_restart'):
                if 'C09' not in props and 'C07' not in props and \
                        'C08' not in props:
                    continue
                path = os.path.join(scratch, 'r{}.h5'.format(step))
                try:
                    write_to(path, obj)
                except Exception as e:
                    _bad('C09', 'write_raised', 'writing {} raised {}: '
                         '{}'.format(cname, type(e).__name__, e), step)
                r1 = clone_rng(s.rng)
                back2 = pair = None
                try:
                    back = read_from(path, klass, r1)
                    if kind == 'update_restart' and wrote0 and has_update(
                            obj):
                        update_in(path0, obj)
                        back2 = read_from(path0, klass, clone_rng(s.rng))
                        ra, rb = clone_rng(s.rng), clone_rng(s.rng)
                        pair = (read_from(path, klass, ra),
                                read_from(path0, klass, rb))
                except Exception as e:
                    _bad('C09', 'read_raised', 'reading back {} raised {}: '
                         '{}'.format(cname, type(e).__name__, e), step,
                         traceback=traceback.format_exc()[-1500:])
                stats['restarts'] += 1
                if 'C09' in props:
                    compare_roundtrip(s, obj, back, g, step, stats, 'write')
                    if back2 is not None:
                        compare_roundtrip(s, obj, back2, g, step, stats,
                                          'update')
                        compare_pair(pair[0], pair[1], step, cname)
                if has_sample(back):
                    for b in (back, back.__dict__.get('outer_bound')):
                        if b is not None and hasattr(b, 'n_sample'):
                            b.__dict__['_vh'] = 0
                            b.__dict__['_vr'] = 0
                # continue in lock-step: the copy gets a clone of the state
                r1.bit_generator.state = copy.deepcopy(
                    s.rng.bit_generator.state)
                twin = back if has_sample(back) else None
                if 'C08' in props and cname in ('Union', 'NautilusBound'):
                    for a in ('n_sample', 'n_reject'):
                        if int(getattr(back, a)) != int(getattr(obj, a)):
                            _bad('C08', 'counter_lost_in_restart', '{} of {} '
                                 'is {} after the round trip, was {}'.format(
                                     a, cname, int(getattr(back, a)),
                                     int(getattr(obj, a))), step)
                continue

            if kind == 'stat':
                if 'C08' not in props or cname not in ('Union',
                                                       'NautilusBound'):
                    continue
                src = obj
                how = op[2] if len(op) > 2 else 'serial'
                pool = None
                if how == 'restart':
                    path = os.path.join(scratch, 's{}.h5'.format(step))
                    write_to(path, obj)
                    src = read_from(path, klass, clone_rng(s.rng))
                elif how == 'pool' and cname == 'NautilusBound':
                    from nautilus.pool import NautilusPool
                    pool = NautilusPool(RecordingPool(
                        3, random.Random(op[1])))
                need = int(op[1])
                A = []
                got = 0
                while got < need:
                    p = sample_from(src, 2000, pool)
                    if cname == 'NautilusBound' and src.shift is not None:
                        p = src.shift.transform(p)
                    A.append(p)
                    got += len(p)
                stats['stat'] = stat_tests(s, src, np.vstack(A), g, step,
                                           n_ref=need)
                stats['stat']['how'] = how
                if src is obj:
                    cons['obj'] = conservation_state(obj)
                    if cname == 'NautilusBound':
                        cons['outer'] = conservation_state(obj.outer_bound)
                continue
            raise ValueError('unknown op {}'.format(op))
    except Violation as v:
        res['status'] = 'violation'
        res['violation'] = dict(prop=v.prop, cls=v.cls, msg=v.msg,
                                detail=dict(step=v.step, **{
                                    k: (x.tolist() if isinstance(
                                        x, np.ndarray) else x)
                                    for k, x in v.detail.items()}))
    except Exception as e:
        tb = traceback.extract_tb(e.__traceback__)
        in_nautilus = any('nautilus' in f.filename and '/verif/' not in
                          f.filename for f in tb)
        res['status'] = 'sut_exception' if in_nautilus else 'harness'
        res['error'] = '{}: {}'.format(type(e).__name__, e)
        res['traceback'] = traceback.format_exc()[-2500:]
        res['step'] = step
    finally:
        if own:
            shutil.rmtree(scratch, ignore_errors=True)
    return res


def compare_roundtrip(s, obj, back, g, step, stats, how):
    cname = s.spec['cls']
    if cname == 'PhaseShift':
        p = probe_points(s, g, 60)
        p = p[in_unit(p)]
        for inv in (False, True):
            a = obj.transform(p, inverse=inv)
            b = back.transform(p, inverse=inv)
            if np.asarray(a).tobytes() != np.asarray(b).tobytes():
                _bad('C09', 'transform_differs', 'PhaseShift.transform '
                     'differs after {}/read'.format(how), step)
        return
    p = probe_points(s, g, 150)
    stats['contains_probes'] += len(p)
    try:
        a = np.asarray(obj.contains(p))
        b = np.asarray(back.contains(p))
    except Exception as e:
        _bad('C09', 'contains_raised', 'contains() of the read-back {} '
             'raised {}: {}'.format(cname, type(e).__name__, e), step,
             traceback=traceback.format_exc()[-1500:])
    if a.tobytes() != b.tobytes():
        j = int(np.flatnonzero(a != b)[0])
        _bad('C09', 'contains_differs', 'contains() of the read-back {} '
             '({}) disagrees with the original on probe point {}'.format(
                 cname, how, j), step, point=p[j])
    if hasattr(obj, 'log_v') and cname != 'NeuralBound':
        if getattr(obj, 'n_sample', 1) != 0:
            va, vb = float(obj.log_v), float(back.log_v)
            if np.float64(va).tobytes() != np.float64(vb).tobytes():
                _bad('C09', 'volume_differs', 'log_v of the read-back {} '
                     '({}) is {!r}, original {!r}'.format(cname, how, vb,
                                                          va), step)


def compare_pair(b1, b2, step, cname):
    """write@t1 -> read  versus  write@t0, ops, update@t1 -> read (two fresh
    copies with generators in the same state)."""
    if not has_sample(b1):
        return
    for n in (7, 1500):
        try:
            x1 = sample_from(b1, n)
            x2 = sample_from(b2, n)
        except Exception as e:
            _bad('C09', 'sample_raised', 'sampling from the read-back {} '
                 'raised {}: {}'.format(cname, type(e).__name__, e), step)
        if np.asarray(x1).tobytes() != np.asarray(x2).tobytes():
            _bad('C09', 'update_not_equivalent_to_write', 'after an '
                 'incremental update the read-back {} samples differently '
                 'from the one read after a full write'.format(cname), step)


# ---------------------------------------------------------------------------
# history generation
# ---------------------------------------------------------------------------

def draw_ops(rng, spec, profile):
    cls = spec['cls']
    n = rng.randrange(1, profile.get('max_len', 8) + 1)
    ops = []
    alphabet = []
    if cls == 'Union':
        alphabet += ['split_t'] * profile.get('w_split', 3)
        if spec['member'] == 'Ellipsoid':
            alphabet += ['split_f'] * profile.get('w_split', 3)
        alphabet += ['trim'] * profile.get('w_trim', 2)
        alphabet += ['split_many'] * profile.get('w_split_many', 1)
    if cls in ('UnitCube', 'Ellipsoid', 'Mixture', 'Union', 'NautilusBound'):
        alphabet += ['sample'] * profile.get('w_sample', 3)
    if cls == 'NautilusBound':
        alphabet += ['sample_pool'] * profile.get('w_pool', 2)
    alphabet += ['restart'] * profile.get('w_restart', 2)
    if cls in ('Union', 'NautilusBound'):
        alphabet += ['write0', 'update_restart'] * profile.get('w_update', 1)
    if cls in ('Union', 'NautilusBound') and profile.get(
            'w_update', 0) and rng.random() < 0.25:
        # write early, consume whole refills, update, read: the cache has the
        # same length as when it was written, but other content
        ops += [['sample', rng.choice([1, 7, 100, 950])], ['write0'],
                ['sample', 1000 * rng.choice([1, 2, 3])],
                ['update_restart'], ['sample', rng.choice([100, 1500])]]
        return ops
    if cls in ('NeuralBound', 'NautilusBound') and profile.get(
            'p_big', 0) and rng.random() < profile['p_big']:
        # one very large batch through contains(): it must stay a
        # point-wise predicate whatever the batch size
        ops.append(['big', 150000])
    for _ in range(n):
        a = rng.choice(alphabet)
        if a == 'split_t':
            ops.append(['split', True])
        elif a == 'split_f':
            ops.append(['split', False])
        elif a == 'split_many':
            ops.append(['split_many', rng.random() < 0.5,
                        rng.choice([4, 12, 20])])
        elif a == 'trim':
            ops.append(['trim', rng.choice([1e3, 10.0, 2.0, 1.0, 0.5])])
        elif a == 'sample':
            ops.append(['sample', rng.choice([1, 7, 100, 100, 950, 1000,
                                              1500, 2000, 3000])])
        elif a == 'sample_pool':
            ops.append(['sample_pool', rng.choice([10, 500, 12000]),
                        rng.choice([1, 2, 3, 8]), rng.randrange(2**31)])
        else:
            ops.append([a])
    return ops

"""E4 - declaration engine for nautilus.Prior (C15).

A history is a list of declaration operations, some of them malformed
(injected failures), applied to one Prior object, with queries after every
operation.  The reference model is a small interpreter of the declaration
list; a rejected declaration must leave the real object and the model in
agreement (failure atomicity)."""

import numpy as np


class Violation(Exception):
    def __init__(self, cls, msg, step):
        Exception.__init__(self, msg)
        self.cls, self.msg, self.step = cls, msg, step


DISTS = ['norm', 'expon', 'beta', 'gamma', 'lognorm', 'uniform_frozen',
         'uniform_mixed', 'uniform_pos', 'norm_pos', 'norm_mixed',
         'expon_mixed', 'uniform_scale_only']


def make_dist(spec):
    import scipy.stats as st
    name, a, b = spec
    if name == 'norm':
        return st.norm(loc=a, scale=b)
    if name == 'expon':
        return st.expon(scale=b)
    if name == 'beta':
        return st.beta(1.0 + abs(a), 1.0 + b)
    if name == 'gamma':
        return st.gamma(1.0 + b, scale=1.0 + abs(a))
    if name == 'lognorm':
        return st.lognorm(0.25 + 0.1 * b, scale=1.0 + abs(a))
    if name == 'uniform_frozen':
        return st.uniform(loc=a, scale=b)
    # the same families declared in the other legal styles (positional,
    # mixed positional/keyword, defaults)
    if name == 'uniform_mixed':
        return st.uniform(a, scale=b)
    if name == 'uniform_pos':
        return st.uniform(a, b)
    if name == 'uniform_scale_only':
        return st.uniform(scale=b)
    if name == 'norm_pos':
        return st.norm(a, b)
    if name == 'norm_mixed':
        return st.norm(a, scale=b)
    if name == 'expon_mixed':
        return st.expon(a, scale=b)
    raise ValueError(name)


# ---------------------------------------------------------------------------
# reference interpreter
# ---------------------------------------------------------------------------

class Model:
    def __init__(self):
        self.decl = []     # (key, kind, payload)

    def keys(self):
        return [d[0] for d in self.decl]

    def free(self):
        return [d for d in self.decl if d[1] in ('uniform', 'dist')]

    def classify(self, op):
        """Return ('ok', key, kind, payload) or ('bad', reason)."""
        kind = op[0]
        if kind == 'other_prior':
            return ('other', )
        key = op[1]
        keys = self.keys()
        if key is None:
            key_eff = 'x_{}'.format(len(keys))
            if key_eff in keys:
                return ('bad', 'colliding automatic key')
        elif not isinstance(key, str):
            return ('bad', 'non-string key')
        elif key in keys:
            return ('bad', 'duplicate key')
        else:
            key_eff = key
        if kind == 'uniform':
            return ('ok', key_eff, 'uniform', (op[2], op[3]))
        if kind == 'dist':
            return ('ok', key_eff, 'dist', tuple(op[2]))
        if kind == 'fixed':
            return ('ok', key_eff, 'fixed', op[2])
        if kind == 'link':
            target = op[2]
            if target == key_eff:
                return ('bad', 'link to itself')
            if target not in keys:
                return ('bad', 'link to undeclared key')
            return ('ok', key_eff, 'link', target)
        if kind == 'badtype':
            return ('bad', 'wrong type for dist')
        if kind == 'other_prior':
            return ('other', )
        raise ValueError(op)

    def resolve(self, key):
        """Ultimate (non-link) declaration a key refers to."""
        seen = set()
        while True:
            d = self.decl[self.keys().index(key)]
            if d[1] != 'link':
                return d
            if key in seen:
                raise RuntimeError('cycle')
            seen.add(key)
            key = d[2]


BADTYPE_VALUES = {'list': [0, 1], 'none': None, 'dict': {'a': 1},
                  'set': {1, 2}}


def apply_real(prior, op, shared=None):
    kind, key = op[0], op[1]
    if kind == 'uniform':
        prior.add_parameter(key, dist=(op[2], op[3]))
    elif kind == 'dist':
        if len(op) > 3 and op[3] == 'shared' and shared is not None:
            # the same frozen distribution OBJECT declared for several keys
            k = tuple(op[2])
            if k not in shared:
                shared[k] = make_dist(op[2])
            prior.add_parameter(key, dist=shared[k])
        else:
            prior.add_parameter(key, dist=make_dist(op[2]))
    elif kind == 'fixed':
        prior.add_parameter(key, dist=op[2])
    elif kind == 'link':
        prior.add_parameter(key, dist=op[2])
    elif kind == 'badtype':
        prior.add_parameter(key, dist=BADTYPE_VALUES[op[2]])
    else:
        raise ValueError(op)


def snapshot(prior):
    return (list(prior.keys), [id(d) if not isinstance(d, (str, int, float))
                               else d for d in prior.dists])


def ppf(decl, u):
    kind, payload = decl[1], decl[2]
    if kind == 'uniform':
        lo, hi = payload
        return lo + (hi - lo) * u
    return make_dist(payload).ppf(u)


def close(a, b, kind):
    a = np.asarray(a, dtype=float)
    b = np.asarray(b, dtype=float)
    if kind == 'uniform':
        return np.all(np.abs(a - b) <= 1e-12 * (1.0 + np.abs(b)))
    return np.all(np.abs(a - b) <= 1e-6 * (1e-6 + np.abs(b)))


def query(prior, model, qrng, step):
    """Compare the real prior with the model on seeded unit-cube inputs."""
    free = model.free()
    d = len(free)

    def bad(cls, msg):
        raise Violation(cls, msg, step)

    try:
        got_d = prior.dimensionality()
    except Exception as e:
        bad('query_raised', 'dimensionality() raised {}: {}'.format(
            type(e).__name__, e))
    if got_d != d:
        bad('dimensionality', 'dimensionality() = {} with {} free '
            'parameters declared'.format(got_d, d))
    if len(prior.keys) != len(model.decl) or list(prior.keys) != \
            model.keys():
        bad('keys', 'declared keys {} but the prior lists {}'.format(
            model.keys(), list(prior.keys)))
    if d == 0:
        return
    n = int(qrng.integers(1, 6))
    # points on the 2^-53 grid, away from 0 and 1 for scipy tails
    u = qrng.random((n, d)) * (1 - 2e-6) + 1e-6
    for shape_kind in ('matrix', 'row'):
        uu = u if shape_kind == 'matrix' else u[0]
        try:
            x = prior.unit_to_physical(np.array(uu))
        except Exception as e:
            bad('query_raised', 'unit_to_physical raised {}: {}'.format(
                type(e).__name__, e))
        if np.shape(x) != np.shape(uu):
            bad('shape', 'unit_to_physical returned shape {} for input shape '
                '{}'.format(np.shape(x), np.shape(uu)))
        for i, decl in enumerate(free):
            want = ppf(decl, uu[..., i])
            if not close(x[..., i], want, decl[1]):
                bad('value', 'column {} ({} {}) is not the inverse CDF of '
                    'its own unit coordinate'.format(i, decl[0], decl[1]))
        try:
            dd = prior.unit_to_dictionary(np.array(uu))
        except Exception as e:
            bad('query_raised', 'unit_to_dictionary raised {}: {}'.format(
                type(e).__name__, e))
        if sorted(dd.keys()) != sorted(model.keys()) or len(dd) != len(
                model.decl):
            bad('dict_keys', 'dictionary keys {} for declared keys '
                '{}'.format(sorted(dd.keys()), sorted(model.keys())))
        i = 0
        for decl in model.decl:
            v = dd[decl[0]]
            if decl[1] in ('uniform', 'dist'):
                if np.asarray(v).tobytes() != np.asarray(
                        x[..., i]).tobytes():
                    bad('dict_value', 'dictionary entry {} differs from '
                        'column {}'.format(decl[0], i))
                i += 1
            elif decl[1] == 'fixed':
                if np.shape(v) != np.shape(uu[..., 0]) or not np.all(
                        np.asarray(v) == decl[2]):
                    bad('fixed', 'fixed parameter {} is {!r}, declared '
                        '{!r}'.format(decl[0], v, decl[2]))
            else:
                tgt = model.resolve(decl[2])
                if np.asarray(v).tobytes() != np.asarray(
                        dd[tgt[0]]).tobytes() or np.shape(v) != np.shape(
                            dd[tgt[0]]):
                    bad('link', 'linked parameter {} differs from its '
                        'ultimate target {}'.format(decl[0], tgt[0]))
    # monotone in its own coordinate, independent of the others
    j = int(qrng.integers(0, d))
    grid = np.sort(qrng.random(8)) * (1 - 2e-6) + 1e-6
    base = np.tile(u[0], (8, 1))
    base[:, j] = grid
    xa = prior.unit_to_physical(np.array(base))
    if np.any(np.diff(xa[:, j]) < 0):
        bad('monotone', 'column {} is not monotone in its own unit '
            'coordinate'.format(j))
    other = np.array(base)
    for c in range(d):
        if c != j:
            other[:, c] = qrng.random(8) * (1 - 2e-6) + 1e-6
    xb = prior.unit_to_physical(np.array(other))
    if xa[:, j].tobytes() != xb[:, j].tobytes():
        bad('dependence', 'column {} depends on other unit '
            'coordinates'.format(j))


def execute(case):
    """case: dict(ops=[...], qseed=int).  Returns result dict."""
    from nautilus import Prior
    prior = Prior()
    model = Model()
    qrng = np.random.default_rng(case.get('qseed', 0))
    stats = dict(accepted=0, rejected=0, queries=0, kinds={})
    shared = {}
    try:
        others = []
        for step, op in enumerate(case['ops']):
            cls = model.classify(op)
            if cls[0] == 'other':
                # an independent Prior object is declared (and kept alive)
                # in the same process, with the same key names but other
                # distributions: it must not influence this one
                other = Prior()
                for sub in op[1]:
                    apply_real(other, sub, shared)
                other.unit_to_physical(np.full(max(
                    1, other.dimensionality()), 0.5)[:other.dimensionality()])
                others.append(other)
                stats['other_priors'] = stats.get('other_priors', 0) + 1
                query(prior, model, qrng, step)
                stats['queries'] += 1
                continue
            before = snapshot(prior)
            try:
                apply_real(prior, op, shared)
                raised = None
            except Exception as e:
                raised = e
            if cls[0] == 'ok':
                if raised is not None:
                    raise Violation(
                        'wellformed_rejected', 'well-formed declaration {} '
                        'raised {}: {}'.format(op, type(raised).__name__,
                                               raised), step)
                model.decl.append((cls[1], cls[2], cls[3]))
                stats['accepted'] += 1
            else:
                stats['rejected'] += 1
                stats['kinds'][cls[1]] = stats['kinds'].get(cls[1], 0) + 1
                if raised is None:
                    raise Violation(
                        'accepted_malformed', 'malformed declaration {} ({}) '
                        'was accepted'.format(op, cls[1]), step)
                if not isinstance(raised, (ValueError, TypeError)):
                    raise Violation(
                        'wrong_exception_type', 'malformed declaration {} '
                        '({}) raised {} instead of ValueError/'
                        'TypeError'.format(op, cls[1],
                                           type(raised).__name__), step)
                if snapshot(prior) != before:
                    raise Violation(
                        'state_changed_by_rejected', 'rejected declaration '
                        '{} ({}) changed the prior: keys {} -> {}'.format(
                            op, cls[1], before[0], list(prior.keys)), step)
            query(prior, model, qrng, step)
            stats['queries'] += 1
    except Violation as v:
        return dict(status='violation', violation=dict(
            prop='C15', cls=v.cls, msg=v.msg, detail=dict(step=v.step)),
            stats=stats)
    return dict(status='ok', stats=stats)


# ---------------------------------------------------------------------------
# generation
# ---------------------------------------------------------------------------

def draw_history(rng, max_len=8, p_bad=0.3):
    n = rng.randrange(1, max_len + 1)
    ops = []
    keys = []          # keys the model will hold (mirrors classify)
    used_dists = []

    def fresh_key():
        if rng.random() < 0.35:
            return None
        pool = ['a', 'b', 'c', 'mass', 'x_0', 'x_1', 'x_2', 'x_3', 'x_4',
                'x_5', 'k{}'.format(rng.randrange(100))]
        cand = [k for k in pool if k not in keys]
        return rng.choice(cand) if cand else 'z{}'.format(len(keys))

    def good_payload(kind, key_eff):
        if kind == 'uniform':
            lo = rng.choice([-5.0, 0.0, 1.5, -0.25])
            return [lo, lo + rng.choice([1.0, 0.5, 10.0])]
        if kind == 'dist':
            if used_dists and rng.random() < 0.4:
                return [list(rng.choice(used_dists)), 'shared']
            spec = [rng.choice(DISTS), rng.choice([-1.0, 0.0, 2.0]),
                    rng.choice([0.5, 1.0, 3.0])]
            used_dists.append(spec)
            return [spec, rng.choice(['own', 'shared'])]
        if kind == 'fixed':
            return [rng.choice([0, 1, -2.5, 3.0, 1e3])]
        return [rng.choice([k for k in keys if k != key_eff])]

    for _ in range(n):
        if keys and rng.random() < 0.12:
            # a second, independent prior re-using some of the key names
            sub = []
            for k in rng.sample(keys, min(len(keys), rng.choice([1, 2, 3]))):
                lo = rng.choice([-50.0, 100.0, 7.0])
                sub.append(rng.choice([
                    ['uniform', k, lo, lo + rng.choice([2.0, 200.0])],
                    ['fixed', k, 42.0],
                    ['dist', k, [rng.choice(DISTS), 5.0, 2.0], 'own']]))
            ops.append(['other_prior', sub])
            continue
        bad = rng.random() < p_bad
        if not bad:
            kind = rng.choice(['uniform', 'uniform', 'dist', 'fixed',
                               'link', 'link'] if keys else
                              ['uniform', 'dist', 'fixed'])
            key = fresh_key()
            key_eff = key if key is not None else 'x_{}'.format(len(keys))
            if key_eff in keys:        # automatic key would collide: this is
                bad = True             # a malformed op, fall through
            elif kind == 'link' and not [k for k in keys if k != key_eff]:
                kind = 'uniform'
            if not bad:
                ops.append([kind, key] + good_payload(kind, key_eff))
                keys.append(key_eff)
                continue
        which = rng.choice(['dup', 'auto_collide', 'self_link',
                            'self_link_auto', 'undeclared', 'nonstring',
                            'badtype', 'badtype_after_key'])
        auto = 'x_{}'.format(len(keys))
        if which == 'dup' and keys:
            kind = rng.choice(['uniform', 'fixed', 'dist'])
            ops.append([kind, rng.choice(keys)] + good_payload(kind, None))
        elif which == 'auto_collide' and auto in keys:
            kind = rng.choice(['uniform', 'fixed'])
            ops.append([kind, None] + good_payload(kind, None))
        elif which == 'self_link':
            k = fresh_key() or 'selfk'
            ops.append(['link', k, k])
        elif which == 'self_link_auto':
            ops.append(['link', None, auto])
        elif which == 'undeclared':
            ops.append(['link', fresh_key(), 'nope{}'.format(
                rng.randrange(10))])
        elif which == 'nonstring':
            ops.append(['uniform', rng.choice([3, 2.5]), 0.0, 1.0])
        elif which in ('badtype', 'badtype_after_key'):
            ops.append(['badtype', fresh_key(), rng.choice(
                sorted(BADTYPE_VALUES))])
        else:
            # the drawn malformed kind is not available in this state:
            # declare something that makes it available next time
            if which == 'auto_collide':
                nxt = 'x_{}'.format(len(keys) + 1)
                if nxt not in keys:
                    ops.append(['uniform', nxt, 0.0, 1.0])
                    keys.append(nxt)
                    continue
            ops.append(['badtype', fresh_key(), 'list'])
    return ops

"""E2 - crash-point engine (C06): record every file operation of a
checkpointed run, replay every prefix, classify the checkpoint left behind."""

import hashlib
import json
import os
import shutil
import struct
import subprocess
import sys
import tempfile

from simkit import env, digest

K_OPEN, K_WRITE, K_TRUNC, K_UNLINK, K_RENAME, K_CLOSE, K_FSYNC, K_MMAP, \
    K_MARK, K_COPY, K_FALLOC, K_LINK = range(1, 13)
COUNTED = {K_OPEN, K_WRITE, K_TRUNC, K_UNLINK, K_RENAME, K_COPY, K_FALLOC,
           K_LINK}
KNAMES = {K_OPEN: 'open', K_WRITE: 'write', K_TRUNC: 'truncate',
          K_UNLINK: 'unlink', K_RENAME: 'rename', K_CLOSE: 'close',
          K_FSYNC: 'fsync', K_MMAP: 'mmap', K_MARK: 'mark', K_COPY: 'copy',
          K_FALLOC: 'fallocate', K_LINK: 'link'}
REC = struct.Struct('<IIiiqqqII')
MAGIC = 0x10511051
O_CREAT, O_TRUNC = 0o100, 0o1000

SHIM = os.path.join(env.VERIF_ROOT, 'build', 'libiosim.so')
CHILD = os.path.join(env.VERIF_ROOT, 'engines', 'e2_child.py')


class HarnessError(Exception):
    pass


def ensure_shim():
    src = os.path.join(env.VERIF_ROOT, 'native', 'iosim.c')
    if (not os.path.exists(SHIM) or
            os.path.getmtime(SHIM) < os.path.getmtime(src)):
        os.makedirs(os.path.dirname(SHIM), exist_ok=True)
        tmp = SHIM + '.{}.tmp'.format(os.getpid())
        subprocess.check_call(['gcc', '-O2', '-fPIC', '-shared', '-o', tmp,
                               src, '-ldl', '-lpthread'])
        os.replace(tmp, SHIM)
    return SHIM


def parse_log(path):
    with open(path, 'rb') as f:
        data = f.read()
    recs, pos = [], 0
    while pos < len(data):
        (magic, kind, fd, flags, off, length, index, plen,
         p2len) = REC.unpack_from(data, pos)
        if magic != MAGIC:
            raise HarnessError('operation log corrupt at byte {}'.format(pos))
        pos += REC.size
        p1 = data[pos:pos + plen].decode()
        pos += plen
        p2 = data[pos:pos + p2len].decode()
        pos += p2len
        payload = b''
        if kind in (K_WRITE, K_COPY, K_MARK) and length > 0:
            payload = data[pos:pos + length]
            if len(payload) != length:
                raise HarnessError('operation log truncated')
            pos += length
        recs.append(dict(kind=kind, fd=fd, flags=flags, off=off, len=length,
                         index=index, p1=p1, p2=p2, payload=payload))
    return recs


class FS:
    """In-memory model of the watched directory: names -> inodes -> bytes;
    descriptors stay bound to their inode across unlink and rename."""

    def __init__(self):
        self.names = {}
        self.inodes = {}
        self.fds = {}
        self.next_inode = 1
        self.unmodelled = []

    def _inode_for(self, rec):
        ino = self.fds.get(rec['fd'])
        if ino is None:
            ino = self.names.get(rec['p1'])
            if ino is None:
                raise HarnessError('write to unknown file {}'.format(
                    rec['p1']))
            if rec['fd'] >= 0:
                self.fds[rec['fd']] = ino
        return ino

    def apply(self, rec, torn=None):
        k = rec['kind']
        if k == K_OPEN:
            if rec['len'] != 0:
                return              # the open failed
            ino = self.names.get(rec['p1'])
            if ino is None:
                ino = self.next_inode
                self.next_inode += 1
                self.inodes[ino] = bytearray()
                self.names[rec['p1']] = ino
            elif rec['flags'] & O_TRUNC:
                self.inodes[ino] = bytearray()
            self.fds[rec['fd']] = ino
        elif k in (K_WRITE, K_COPY):
            if rec['len'] <= 0:
                return
            ino = self._inode_for(rec)
            buf = self.inodes[ino]
            data = rec['payload']
            if torn is not None:
                data = data[:torn]
            if k == K_COPY and len(rec['payload']) != rec['len']:
                raise HarnessError('copy payload missing')
            end = rec['off'] + len(data)
            if len(buf) < end:
                buf.extend(b'\0' * (end - len(buf)))
            buf[rec['off']:end] = data
        elif k == K_TRUNC:
            ino = (self._inode_for(rec) if rec['fd'] >= 0 else
                   self.names.get(rec['p1']))
            if ino is None:
                return
            buf = self.inodes[ino]
            n = rec['len']
            if n < len(buf):
                del buf[n:]
            else:
                buf.extend(b'\0' * (n - len(buf)))
        elif k == K_FALLOC:
            ino = self._inode_for(rec)
            buf = self.inodes[ino]
            end = rec['off'] + rec['len']
            if rec['flags'] == 0 and end > len(buf):
                buf.extend(b'\0' * (end - len(buf)))
            elif rec['flags'] != 0:
                self.unmodelled.append('fallocate mode {}'.format(
                    rec['flags']))
        elif k == K_UNLINK:
            if rec['len'] == 0:
                self.names.pop(rec['p1'], None)
        elif k == K_RENAME:
            if rec['len'] == 0 and rec['p1'] in self.names:
                self.names[rec['p2']] = self.names.pop(rec['p1'])
        elif k == K_LINK:
            if rec['len'] == 0 and rec['p1'] in self.names:
                self.names[rec['p2']] = self.names[rec['p1']]
        elif k == K_CLOSE:
            self.fds.pop(rec['fd'], None)
        elif k == K_MMAP:
            self.unmodelled.append('mmap(PROT_WRITE, MAP_SHARED) of ' +
                                   rec['p1'])

    def content(self, path):
        ino = self.names.get(path)
        return None if ino is None else bytes(self.inodes[ino])

    def listing(self):
        return {p: bytes(self.inodes[i]) for p, i in self.names.items()}


_CLS_CACHE = {}


def classify(image):
    """'absent' | 'unreadable' | logical digest of an HDF5 image."""
    if image is None:
        return 'absent'
    key = hashlib.sha1(image).digest()
    got = _CLS_CACHE.get(key)
    if got is None:
        try:
            got, _ = digest.h5_file_logical(image)
        except Exception:
            got = 'unreadable'
        if len(_CLS_CACHE) > 4096:
            _CLS_CACHE.clear()
        _CLS_CACHE[key] = got
    return got


def child_env(watch_dir, log=None, stop_at=None, torn=None, shim=True):
    e = dict(os.environ)
    e.update(env.PIN)
    e['VERIF_REEXEC'] = '1'
    for k in ('IOSIM_LOG', 'IOSIM_STOP_AT', 'IOSIM_TORN', 'IOSIM_DIR',
              'LD_PRELOAD'):
        e.pop(k, None)
    if shim:
        e['LD_PRELOAD'] = SHIM
        e['IOSIM_DIR'] = watch_dir
        if log:
            e['IOSIM_LOG'] = log
        if stop_at:
            e['IOSIM_STOP_AT'] = str(stop_at)
        if torn:
            e['IOSIM_TORN'] = str(torn)
    return e


def run_child(cfg_path, watch_dir, mode, out_path, timeout=300, **kw):
    if os.path.exists(out_path):
        os.unlink(out_path)
    p = subprocess.run([sys.executable, CHILD, cfg_path, watch_dir, mode,
                        out_path], env=child_env(watch_dir, **kw),
                       stdout=subprocess.PIPE, stderr=subprocess.STDOUT,
                       timeout=timeout)
    res = None
    if os.path.exists(out_path):
        with open(out_path) as f:
            res = json.load(f)
    return p.returncode, res, p.stdout.decode(errors='replace')[-2000:]


def annotate(recs):
    """Per counted operation: the write it lies in and the allowed digests.
    Returns (ops, completed) where ops[n-1] describes counted operation n."""
    ops = []
    completed = []        # digests in completion order
    inside = None         # kind of the write in progress
    pending = []          # counted ops of the write in progress
    start_seen = False
    for i, r in enumerate(recs):
        if r['kind'] == K_MARK:
            text = r['payload'].decode()
            if text.startswith('B '):
                inside = text[2:]
                pending = []
            elif text.startswith('E '):
                kind, d = text[2:].split(' ', 1)
                for o in pending:
                    o['next'] = d
                completed.append(d)
                inside = None
                pending = []
            continue
        if r['kind'] in COUNTED:
            o = dict(n=r['index'], rec=i, kind=KNAMES[r['kind']],
                     inside=inside, last=(completed[-1] if completed else
                                          None), next=None,
                     n_completed=len(completed), size=r['len'])
            ops.append(o)
            if inside is not None:
                pending.append(o)
    return ops, completed


def verdict_for(cls, op):
    """Judge the checkpoint left by a kill before operation `op`."""
    allowed = {op['last'], op['next']} - {None}
    if op['n_completed'] == 0:
        # no checkpoint has been completed yet
        if cls in ('absent', 'unreadable'):
            return None, 'tolerated_before_first:' + cls
        if cls in allowed:
            return None, 'ok'
        return ('readable_partial_before_first',
                'before the first checkpoint was completed the file is '
                'readable but holds none of the completely written states')
    if cls == 'absent':
        return ('missing_after_first_checkpoint',
                'a checkpoint had been completed, the file is missing')
    if cls == 'unreadable':
        return ('unreadable_after_first_checkpoint',
                'a checkpoint had been completed, the file is unreadable')
    if cls not in allowed:
        return ('mixed_state',
                'the file is readable but holds neither the last completed '
                'state nor the one being written')
    return None, 'ok'
